"""C17 -- margin histories interpolate within bounds; irregular histories are discarded.

History check over the per-unit version logs that the simulated feed produces (reordering => downward revisions,
after-the-fact re-scaling of expected vote, repeated and zero-vote versions).  (a) component: the recorded logs, in
both dtypes a CSV round-trip can give, go through VersionedDataHandler.compute_versioned_margin_estimate;
(b) end-to-end: the runner, in a non-local environment, writes current.csv at every poll, a VersionedDataHandler
reads the versions back through the sim bucket (paging, sampling) and the same function runs on what the system
itself stored.  Oracle R9 (plain floats)."""
import math

import numpy as np
import pandas as pd

from checks import common as C
from nightsim import seams
from nightsim.framework import NightExec, Violation
from nightsim.night import schedule_night
from nightsim.profile import make_profile
from nightsim.streams import chance, choice
from nightsim.world import make_world

PROP = "C17"
PROP_NO = 17
LEVEL = "exploration"
RULE = ("one evaluation = one unit version history pushed through compute_versioned_margin_estimate and compared with R9; "
        "distinct = distinct (number of versions bucket, regular / non-monotone / impossible batch, dtype, repeated versions, "
        "zero-vote versions, re-scaled, end-to-end or component); non-trivial = the history has >= 2 distinct versions")
ASSUMPTIONS = [
    "a history is regular iff turnout is non-decreasing over its versions and every batch margin (difference of dem minus difference of gop over difference of two-party votes, 0 for an empty batch) lies in [-1, 1]",
    "convexity and the closed form are compared at 1e-9; rows for percent 0 are only required to exist; units whose final turnout is 0 are only required not to fail",
    "<= 40 versions per unit; end-to-end nights store what CombinedDataHandler.write_data writes (current.csv) and read it back with sample 1 or 2",
]
REAL = C.REAL + ["VersionedDataHandler, S3VersionUtil (end-to-end nights)"]
STUBBED = C.STUBBED


def budget(tier):
    return dict(nights=600, wall_s=240) if tier == "quick" else dict(nights=5000, wall_s=1500)


FEED = dict(p_loss=0.05, p_dup=0.15, p_reorder=0.3, p_rescale=0.25, p_flap=0.08, versions=(1, 9), max_polls=0, max_events=4000, p_never_final=0.1,
            surge_frac=0.05, boundary_frac=0.0)


def make_spec(st, idx, tier):
    wk = dict(offices=["G", "S"], unit_types=["county", "precinct"], n_states=(1, 2), n_counties=(3, 8), n_units=(2, 6), zero_baseline_frac=0.05)
    world = make_world(st.world, wk)
    if idx % 6 == 5:
        prof = make_profile(st.operator, world, dict(estimators=["bootstrap"], B=(2, 8), fixed_effects_p=0.0, features_p=0.0, blocklist_p=0.0,
                                                     thresholds=[100], policies=["drop"]))
        prof["aggregates"] = ["postal_code", "unit"]
        prof["app_env"] = "prod"
        prof["save_output"] = ["results"]
        fk = dict(FEED, max_polls=int(st.sched.integers(3, 8)), poll_every=(20.0, 90.0), start_polls_after=10.0, p_dup=0.0)
        ops, fstats = schedule_night(st, world, fk)
        return dict(kind="end_to_end", world=world, profile=prof, ops=ops, feed_stats=fstats, sample=int(choice(st.storage, [1, 1, 2])),
                    page_size=int(choice(st.storage, [1, 2, 3, 1000])),
                    fail_positions=[int(i) for i in st.storage.permutation(8)[: int(choice(st.storage, [0, 0, 1, 2]))]])
    ops, fstats = schedule_night(st, world, FEED)
    # data-entry faults: a version whose party split is wrong (dem under-, gop over-reported at unchanged turnout), so
    # that the next batch has an impossible margin although turnout stays monotone
    n_bad = 0
    for o in ops:
        if o["k"] == "deliver" and o["row"]["results_dem"] > 20 and st.feed.random() < 0.04:
            kk = int(st.feed.integers(1, o["row"]["results_dem"]))
            o["row"] = dict(o["row"], results_dem=o["row"]["results_dem"] - kk, results_gop=o["row"]["results_gop"] + kk)
            o["entry_error"] = True
            n_bad += 1
    # a correction that re-publishes the same totals with votes moved between the parties: an empty batch with a
    # non-zero margin change (an impossible batch)
    for o in ops:
        if o["k"] == "dup" and o["row"]["results_dem"] > 5 and st.feed.random() < 0.35:
            kk = int(st.feed.integers(1, o["row"]["results_dem"]))
            o["row"] = dict(o["row"], results_dem=o["row"]["results_dem"] - kk, results_gop=o["row"]["results_gop"] + kk)
            o["entry_error"] = True
            n_bad += 1
    fstats["entry_errors"] = n_bad
    return dict(kind="component", world=world, ops=ops, feed_stats=fstats, profile={})


def histories_from_ops(ops):
    """Per-unit sequence of the rows the results table held (one entry per delivery / re-scale), in time order."""
    hist = {}
    cur = {}
    for o in ops:
        k = o["k"]
        if k in ("deliver", "dup", "foreign", "set_row"):
            r = dict(o["row"])
            cur[o["u"]] = r
            hist.setdefault(o["u"], []).append(dict(r, t=o["t"], how=k))
        elif k == "rescale" and o["u"] in cur:
            r = dict(cur[o["u"]], percent_expected_vote=o["pev"])
            cur[o["u"]] = r
            hist.setdefault(o["u"], []).append(dict(r, t=o["t"], how=k))
    return hist


def r9(vs):
    """Reference: vs = list of dict(pev, dem, gop, turnout) in time order.  Returns ('regular', rows) or (error, None)."""
    T = [float(v["results_turnout"]) for v in vs]
    D = [float(v["results_dem"]) for v in vs]
    G = [float(v["results_gop"]) for v in vs]
    W = [d + g for d, g in zip(D, G)]
    M = [((d - g) / w) if w else 0.0 for d, g, w in zip(D, G, W)]
    P_last = float(vs[-1]["percent_expected_vote"])
    c = [(t / T[-1]) if T[-1] != 0 else 0.0 for t in T]
    if any(c[i + 1] < c[i] for i in range(len(c) - 1)):
        return "non-monotone", None
    b = []
    for i in range(len(vs)):
        if i + 1 < len(vs):
            num, den = (D[i + 1] - D[i]) - (G[i + 1] - G[i]), W[i + 1] - W[i]
        else:
            num, den = 0.0, 0.0
        if den == 0:
            b.append(0.0 if num == 0 else math.copysign(math.inf, num))
        else:
            b.append(num / den)
    if max(abs(x) for x in b) > 1:
        return "batch_margin", None
    pv = [x * P_last for x in c]
    rows = []
    for perc in range(0, int(max(pv)) + 1):
        j = -1
        for i, x in enumerate(pv):
            if x <= perc:
                j = i
        if perc == 0:
            est, lo, hi = 0.0, None, None
        elif j == -1:
            est, lo, hi = M[0], M[0], M[0]
        else:
            est = (M[j] * pv[j] + b[j] * (perc - pv[j])) / perc
            lo, hi = min(M[j], b[j]), max(M[j], b[j])
        rows.append(dict(perc=perc, est=est, lo=lo, hi=hi, corr=M[-1] - est, before_first=(j == -1)))
    return "regular", dict(rows=rows, final_margin=M[-1], t_last=T[-1], p_last=P_last)


def frame_of(histories, dtype):
    recs = []
    for u, vs in histories.items():
        for i, v in enumerate(vs):
            recs.append(dict(geographic_unit_fips=u, percent_expected_vote=v["percent_expected_vote"], results_dem=v["results_dem"],
                             results_gop=v["results_gop"], results_turnout=v["results_turnout"], last_modified=float(v.get("t", i)) + i * 1e-6))
    df = pd.DataFrame(recs)
    for c in ("results_dem", "results_gop", "results_turnout", "percent_expected_vote"):
        df[c] = df[c].astype(dtype)
    return df


def check_frame(out_df, histories, stats, mode, dtype):
    viol = []
    by_unit = {u: g for u, g in out_df.groupby("geographic_unit_fips")}
    for u, vs in histories.items():
        stats.evaluations += 1
        kind, ref = r9(vs)
        distinct = len({(v["percent_expected_vote"], v["results_dem"], v["results_gop"], v["results_turnout"]) for v in vs})
        repeated = distinct < len(vs)
        zero_v = any(v["results_turnout"] == 0 for v in vs)
        rescaled = any(v.get("how") == "rescale" for v in vs)
        flags = dict(mode=mode, dtype=dtype)
        stats.probes["history:" + kind] += 1
        if repeated:
            stats.probes["repeated_version"] += 1
        if zero_v:
            stats.probes["zero_vote_version"] += 1
        if rescaled:
            stats.probes["rescaled_after_the_fact"] += 1
        stats.state((min(len(vs), 10), kind, dtype, repeated, zero_v, rescaled, mode), distinct >= 2)
        g = by_unit.get(u)
        if g is None:
            viol.append(Violation(PROP, "unit_missing", f"unit {u} has {len(vs)} versions but no rows in the estimate frame", flags))
            continue
        errs = set(g["error_type"])
        if kind != "regular":
            if errs == {"none"} or not g["est_correction"].isna().all():
                viol.append(Violation(PROP, "irregular_history_used", f"unit {u}: history is irregular ({kind}) but corrections were produced (error types {sorted(errs)}); "
                                      f"versions (pev, dem, gop, turnout) = {[(v['percent_expected_vote'], v['results_dem'], v['results_gop'], v['results_turnout']) for v in vs][:8]}",
                                      dict(flags, kind=kind)))
            continue
        if errs != {"none"}:
            viol.append(Violation(PROP, "regular_history_discarded", f"unit {u}: regular history marked {sorted(errs)}; versions = "
                                  f"{[(v['percent_expected_vote'], v['results_dem'], v['results_gop'], v['results_turnout']) for v in vs][:8]}", flags))
            continue
        if ref["t_last"] == 0:
            stats.probes["final_turnout_zero"] += 1
            continue
        got = {int(r["percent_expected_vote"]): r for r in g.to_dict("records")}
        want_percs = [r["perc"] for r in ref["rows"]]
        if sorted(got) != want_percs:
            viol.append(Violation(PROP, "percent_rows", f"unit {u}: rows for percents {sorted(got)[:3]}..{sorted(got)[-3:]} (n={len(got)}), expected every percent 0..{want_percs[-1]}; "
                                  f"versions = {[(v['percent_expected_vote'], v['results_dem'], v['results_gop'], v['results_turnout']) for v in vs][:8]}", flags))
            continue
        for r in ref["rows"]:
            if r["perc"] == 0:
                continue
            e = float(got[r["perc"]]["est_margin"])
            cor = float(got[r["perc"]]["est_correction"])
            where = f"unit {u} at {r['perc']} %: versions = {[(v['percent_expected_vote'], v['results_dem'], v['results_gop'], v['results_turnout']) for v in vs][:8]}"
            if not math.isfinite(e) or abs(e) > 1 + 1e-9:
                viol.append(Violation(PROP, "out_of_range", f"imputed margin {e} outside [-1, 1]; {where}", flags))
                break
            if r["before_first"]:
                if not C.close(e, r["est"], rel=1e-9, abs_=1e-12):
                    viol.append(Violation(PROP, "before_first_observation", f"imputed margin {e} != first observed margin {r['est']}; {where}", flags))
                    break
            elif not (r["lo"] - 1e-9 <= e <= r["hi"] + 1e-9):
                viol.append(Violation(PROP, "not_convex", f"imputed margin {e} is not between the last observed margin and the next batch margin [{r['lo']}, {r['hi']}]; {where}", flags))
                break
            if not r["before_first"] and not C.close(e, r["est"], rel=1e-9, abs_=1e-12):
                stats.probes["convex_but_not_the_documented_weights"] += 1  # allowed by the statement; counted only
            if not C.close(cor, ref["final_margin"] - e, rel=1e-9, abs_=1e-12):
                viol.append(Violation(PROP, "correction", f"correction {cor} != final margin {ref['final_margin']} - imputed {e}; {where}", flags))
                break
    return viol


def handler(world, sample=1):
    from elexmodel.handlers.data.VersionedData import VersionedDataHandler

    return VersionedDataHandler(world["election_id"], world["office"], world["unit_type"], estimands=["margin"], sample=sample)


def run_component(spec, stats):
    from elexmodel.handlers.data.Estimandizer import Estimandizer

    world = spec["world"]
    hist = {u: vs[:40] for u, vs in histories_from_ops(spec["ops"]).items()}
    viol = []
    for dtype in ("int64", "float64"):
        df = frame_of(hist, dtype)
        if df.empty:
            continue
        df, _ = Estimandizer().add_estimand_results(df, ["margin"], False)
        df = df.sort_values("last_modified")
        h = handler(world)
        try:
            out = h.compute_versioned_margin_estimate(data=df)
        except Exception as e:  # noqa: BLE001
            viol.append(Violation(PROP, "failed", f"compute_versioned_margin_estimate raised {type(e).__name__}: {e}", dict(mode="component", dtype=dtype)))
            continue
        viol += check_frame(out, hist, stats, "component", dtype)
        if viol:
            break
    stats.polls += 2
    stats.polls_ok += 2
    return viol


class Recorder(C.BaseChecker):
    PROP = PROP

    def __init__(self, spec):
        super().__init__(spec)
        self.stored = []

    def after_poll(self, ex, op, rec):
        wrote = [x for x in rec.puts if x["ok"] and x["key"].endswith("/current.csv") and "/results/" in x["key"]]
        if wrote:
            self.stored.append([dict(r) for r in rec.rows])
        return []


def run_end_to_end(spec, stats):
    world = spec["world"]
    chk = Recorder(spec)
    ex = NightExec(spec, chk, stats)
    ex.run()
    seams.STORAGE.bucket.page_size = spec.get("page_size", 1000)
    sample = spec.get("sample", 1)
    viol = []
    if not chk.stored:
        return viol
    # storage faults while reading back: the downloads of some stored versions fail
    key = f"elex-models-dev/{world['election_id']}/results/{world['office']}/{world['unit_type']}/current.csv"
    stored_versions = seams.STORAGE.bucket.versions_newest_first(key)
    newest_first_ids = [v["VersionId"] for v in stored_versions if v["Key"] == key]
    sampled_pos = list(range(0, len(newest_first_ids), sample))
    failing = {newest_first_ids[i] for i in spec.get("fail_positions", []) if i < len(newest_first_ids)}
    if len([i for i in sampled_pos if newest_first_ids[i] not in failing]) == 0:
        failing = set()
    seams.STORAGE.bucket.failing_versions = failing
    if failing:
        stats.faults["download_failure"] += len(failing)
    h = handler(world, sample=sample)
    try:
        data = h.get_versioned_results()
    except Exception as e:  # noqa: BLE001
        return [Violation(PROP, "failed", f"get_versioned_results raised {type(e).__name__}: {e}", dict(mode="end_to_end"))]
    if data is None:
        return [Violation(PROP, "failed", f"{len(chk.stored)} versions were stored but none was read back", dict(mode="end_to_end"))]
    # the versions read back: newest first, every sample-th -> in time order
    n = len(chk.stored)
    newest_first = [i for pos, i in enumerate(range(n - 1, -1, -1)) if pos % sample == 0 and (pos >= len(newest_first_ids) or newest_first_ids[pos] not in failing)]
    used = sorted(newest_first)
    hist = {}
    for vi in used:
        for r in chk.stored[vi]:
            hist.setdefault(r["geographic_unit_fips"], []).append(dict(r, t=vi))
    stats.probes["end_to_end_versions_read:%d" % min(len(used), 6)] += 1
    if not hist:
        stats.probes["end_to_end_all_stored_versions_empty"] += 1
        return viol  # every stored version was an empty table (polls before the first delivery): no unit history exists
    try:
        out = h.compute_versioned_margin_estimate()
    except Exception as e:  # noqa: BLE001
        return [Violation(PROP, "failed", f"compute_versioned_margin_estimate raised {type(e).__name__}: {e}", dict(mode="end_to_end"))]
    viol += check_frame(out, hist, stats, "end_to_end", "csv")
    return viol


def run_custom(spec, stats):
    import hashlib, json

    if spec["kind"] == "component":
        vs = run_component(spec, stats)
    else:
        vs = run_end_to_end(spec, stats)
    stats.sim_minutes = spec.get("feed_stats", {}).get("sim_minutes", 0.0)
    h = histories_from_ops(spec["ops"])
    ex_u = sorted(h, key=lambda u: -len(h[u]))[:1]
    stats.sample = dict(night_seed=spec.get("night_seed"), kind=spec["kind"], units=len(h),
                        example_history=[(v["percent_expected_vote"], v["results_dem"], v["results_gop"], v["results_turnout"], v["how"]) for v in (h[ex_u[0]] if ex_u else [])][:10])
    for k, v in spec.get("feed_stats", {}).items():
        if k in ("overtaken", "rescaled", "dup", "lost", "entry_errors", "flapped"):
            stats.faults["feed_" + k] += v
    return vs, hashlib.sha256(json.dumps([len(h), len(vs), stats.evaluations]).encode()).hexdigest()[:24]
