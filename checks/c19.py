"""C19 -- version retrieval returns exactly the requested window despite paging and faults.

The real S3VersionUtil runs against the sim bucket (versioned store that pages its newest-first listing with a
scheduled page size) and the sim transfer manager (futures complete in scheduler-chosen order; chosen versions'
downloads fail).  Fault enumeration for short histories: every page size x every window on the version-time grid
(+-1 s, open ends) x every failing subset x sample steps; seeded exploration beyond.  A sample of scenarios is also
run through the REAL s3transfer.TransferManager (real threads) as a conformance check of the stub."""
import datetime as dt
import io
import itertools

import pandas as pd
from dateutil import tz as dtz

from checks import common as C
from nightsim import seams
from nightsim.framework import Violation
from nightsim.streams import chance, choice

PROP = "C19"
PROP_NO = 19
LEVEL = "fault_enumeration"
RULE = ("one evaluation = one scenario (version history, page size, window, sample step, failing subset, completion order) run "
        "through S3VersionUtil.list_versions and .get; histories of <= 4 (quick) / <= 6 (thorough) versions are enumerated "
        "completely over page sizes 1..n+1, all windows on the version-time grid (+-1 s and open ends), all failing subsets (6 versions: "
        "the failing sets of size 0, 1, 5 and 6) and sample steps 1..3; longer histories (up to 300 versions) are sampled; distinct = distinct scenario tuples; non-trivial = "
        "the listing needs more than one page, or the window cuts the history, or at least one download fails")
ASSUMPTIONS = [
    "one key per listing prefix; newest-first listing by modification time; no delete markers; the service's clock does not go backwards",
    "when every sampled download fails the statement makes no promise ('as long as at least one succeeds'): that case is only required not to return wrong data",
    "transfer manager: sim stub by default; the real s3transfer.TransferManager is run over the sim client on a sample (conformance of the stub)",
]
REAL = ["elexmodel.handlers.s3.S3VersionUtil (real)", "pandas.read_csv", "dateutil tz", "s3transfer.TransferManager (conformance sample only)"]
STUBBED = ["S3 service (sim bucket: list_object_versions paging, get_object)", "botocore session", "s3transfer.TransferManager (sim futures, scheduler-chosen completion order)"]
KEY = "elex-models-dev/2022-11-08_USA_G/results/G/county/current.csv"
BUCKET = "elex-models-dev"


def budget(tier):
    return dict(nights=40, wall_s=240) if tier == "quick" else dict(nights=1200, wall_s=1500)


def make_history(rng, n):
    """n versions, oldest first: (seconds offset, body rows)."""
    t = 0
    out = []
    for i in range(n):
        t += int(choice(rng, [0, 1, 1, 2, 5, 60, 600]))  # ties in modification time are possible
        rows = int(rng.integers(1, 4))
        out.append(dict(t=t, rows=[dict(geographic_unit_fips=f"0{1000 + i}", dem=int(rng.integers(0, 999)), gop=int(rng.integers(0, 999)),
                                        total=int(rng.integers(0, 2999)), marker=i * 10 + j) for j in range(rows)]))
    return out


def make_spec(st, idx, tier):
    rng = st.storage
    small_max = 4 if tier == "quick" else 6
    if idx % 4 != 3:
        n = int(rng.integers(0, small_max + 1))
        return dict(kind="enumerate", history=make_history(rng, n), tzname=choice(rng, ["America/New_York", "UTC", "Asia/Tokyo"]),
                    real_tm=False, ops=[])
    n = int(choice(rng, [5, 9, 17, 40, 120, 300]))
    hist = make_history(rng, n)
    scen = []
    for _ in range(24 if tier == "quick" else 60):
        ts = sorted({h["t"] for h in hist})
        def edge():
            if chance(rng, 0.25):
                return None
            return int(choice(rng, ts)) + int(choice(rng, [-1, 0, 0, 1]))
        s, e = edge(), edge()
        if s is not None and e is not None and s > e and chance(rng, 0.8):
            s, e = e, s
        nfail = int(choice(rng, [0, 0, 1, 2, n // 2]))
        fail = sorted(int(i) for i in rng.permutation(n)[:nfail])
        scen.append(dict(page=int(choice(rng, [1, 2, 3, 7, n - 1 if n > 1 else 1, n, n + 1, 1000])), start=s, end=e,
                         sample=int(choice(rng, [1, 2, 2, 3, 5])), fail=fail, order_seed=int(rng.integers(0, 2**31))))
    return dict(kind="sampled", history=hist, scenarios=scen, tzname=choice(rng, ["America/New_York", "UTC", "Asia/Tokyo"]),
                real_tm=(idx % 16 == 3), ops=[])


FULL_SUBSETS_UP_TO = 5  # every failing subset is enumerated for histories of up to this many versions


def enumerate_scenarios(hist):
    n = len(hist)
    ts = sorted({h["t"] for h in hist})
    grid = [None] + sorted({t + d for t in ts for d in (-1, 0, 1)}) if ts else [None, 0]
    for page in range(1, n + 2):
        for s in grid:
            for e in grid:
                if s is not None and e is not None and s > e + 1:
                    continue
                for sample in (1, 2, 3):
                    for r in range(0, n + 1):
                        if n > FULL_SUBSETS_UP_TO and 1 < r < n - 1:
                            continue  # 6 versions: only the empty, single, all-but-one and complete failing sets (cost bound)
                        for fail in itertools.combinations(range(n), r):
                            yield dict(page=page, start=s, end=e, sample=sample, fail=list(fail), order_seed=(page * 7919 + len(fail) * 31 + sample) % 1000003)


_CSV_CACHE = {}


def csv_of(rows):
    # the same version bodies are stored again for every scenario of a history: render each once
    key = id(rows)
    hit = _CSV_CACHE.get(key)
    if hit is None or hit[0] is not rows:
        if len(_CSV_CACHE) > 4096:
            _CSV_CACHE.clear()
        hit = _CSV_CACHE[key] = (rows, pd.DataFrame(rows).to_csv(index=False))
    return hit[1]


def to_dt(sec):
    return None if sec is None else seams.EPOCH + dt.timedelta(seconds=sec)


def run_scenario(hist, sc, tzname, real_tm, stats):
    """Returns list of (clause, message, flags)."""
    import numpy as np
    from elexmodel.handlers import s3 as s3mod

    seams.STORAGE.install(real_transfer_manager=real_tm)
    bucket = seams.STORAGE.new_night(page_size=sc["page"])
    vids = []
    for h in hist:
        v = bucket.seed_object(KEY, csv_of(h["rows"]), when=seams.EPOCH + dt.timedelta(seconds=h["t"]))
        vids.append(v["VersionId"])
    bucket.failing_versions = {vids[i] for i in sc["fail"]}
    seams.SimTransferManager.order_rng = np.random.default_rng(sc["order_seed"])
    start, end = to_dt(sc["start"]), to_dt(sc["end"])
    util = s3mod.S3VersionUtil(BUCKET, start, end, tzname)
    out = []
    n = len(hist)
    flags = dict(real_tm=real_tm)
    # reference model R7
    newest_first = sorted(range(n), key=lambda i: (hist[i]["t"], vids[i]), reverse=True)
    in_window = [i for i in newest_first if (start is None or to_dt(hist[i]["t"]) >= start) and (end is None or to_dt(hist[i]["t"]) <= end)]
    try:
        listed = util.list_versions(KEY)
    except Exception as e:  # noqa: BLE001
        return [("list_failed", f"list_versions raised {type(e).__name__}: {e} (page size {sc['page']}, window {sc['start']}..{sc['end']})", flags)]
    got_ids = [v["VersionId"] for v in listed]
    want_ids = [vids[i] for i in in_window]
    pages = len(bucket.list_log)
    if got_ids != want_ids:
        if sorted(got_ids) == sorted(want_ids):
            out.append(("list_order", f"listing returned the window's versions in another order (page size {sc['page']})", flags))
        else:
            miss = [x for x in want_ids if x not in got_ids]
            extra = [x for x in got_ids if x not in want_ids]
            dup = len(got_ids) != len(set(got_ids))
            out.append(("list_window", f"{n} versions at t={[h['t'] for h in hist]}, page size {sc['page']}, window [{sc['start']}, {sc['end']}]: "
                                       f"missing {miss} extra {extra} duplicates {dup}",
                        dict(flags, missing=bool(miss), extra=bool(extra), duplicates=dup)))
    # retrieval
    bucket.get_log.clear()
    try:
        df = util.get(KEY, sample=sc["sample"])
        err = None
    except Exception as e:  # noqa: BLE001
        df, err = None, e
    sampled = want_ids[:: sc["sample"]]
    ok_sampled = [v for v in sampled if v not in bucket.failing_versions]
    if not want_ids:
        if err is not None or df is not None:
            out.append(("empty_window_not_none", f"no version in the window but get() gave {type(err).__name__ if err else type(df).__name__}: {err}", flags))
        return out, pages
    if not ok_sampled:
        stats.probes["all_sampled_downloads_failed"] += 1
        if err is None and df is not None and len(df) > 0:
            out.append(("data_from_failed_downloads", "every sampled download failed but rows were returned", flags))
        return out, pages
    if err is not None:
        out.append(("get_aborted", f"{len(ok_sampled)} of {len(sampled)} sampled downloads could succeed but get() raised {type(err).__name__}: {err}",
                    dict(flags, failing=len(sampled) - len(ok_sampled) > 0)))
        return out, pages
    if got_ids != want_ids:
        return out, pages  # retrieval is downstream of a wrong listing
    # expected frame: for each successfully downloaded sampled version (in listing order) its rows, stamped
    exp = []
    zone = dtz.gettz(tzname)
    by_vid = {vids[i]: hist[i] for i in range(n)}
    for v in ok_sampled:
        h = by_vid[v]
        stamp = pd.to_datetime(to_dt(h["t"])).astimezone(tz=zone)
        for r in h["rows"]:
            exp.append((r["marker"], stamp))
    got = list(zip(df["marker"].tolist(), df["last_modified"].tolist()))
    # which rows come back is stated by the property (each once); the order of the rows in the frame is not
    if sorted(m for m, _ in got) != sorted(m for m, _ in exp):
        gm, em = [m // 10 for m, _ in got], [m // 10 for m, _ in exp]
        out.append(("wrong_versions_downloaded", f"rows of versions {sorted(set(gm))} returned ({len(gm)} rows), expected versions {sorted(set(em))} ({len(em)} rows) "
                                                 f"(sample {sc['sample']}, failing {sc['fail']}, page size {sc['page']})",
                    dict(flags, sample=sc["sample"], failing=bool(sc["fail"]))))
    else:
        if [m for m, _ in got] != [m for m, _ in exp]:
            stats.probes["rows_returned_in_another_order_than_listed"] += 1
        want_stamp = dict(exp)
        for m, g in got:
            e = want_stamp[m]
            if pd.Timestamp(g) != pd.Timestamp(e) or str(pd.Timestamp(g).tzinfo) != str(pd.Timestamp(e).tzinfo):
                out.append(("wrong_timestamp", f"row {m}: stamped {g} but its version was modified {e}", flags))
                break
    for col, src in (("results_dem", "dem"), ("results_gop", "gop"), ("results_turnout", "total")):
        if col not in df.columns or df[col].tolist() != df[src].tolist():
            out.append(("derived_columns", f"{col} is not a copy of {src}", flags))
    if sc["fail"] and not out:
        # faults stop; the SAME retrieval object is asked again: everything sampled must come back now
        bucket.failing_versions = set()
        try:
            df2 = util.get(KEY, sample=sc["sample"])
            want2 = [r["marker"] for v in sampled for r in by_vid[v]["rows"]]
            if df2 is None or sorted(df2["marker"].tolist()) != sorted(want2):
                out.append(("state_after_failed_downloads", f"after the failing downloads stopped failing, a second get() on the same object returned versions "
                                                            f"{sorted(set(m // 10 for m in (df2['marker'].tolist() if df2 is not None else [])))} instead of {sorted(set(m // 10 for m in want2))}", flags))
            stats.probes["second_get_after_faults_stopped"] += 1
        except Exception as e:  # noqa: BLE001
            out.append(("state_after_failed_downloads", f"second get() on the same object raised {type(e).__name__}: {e}", flags))
    return out, pages


def run_custom(spec, stats):
    hist, tzname = spec["history"], spec["tzname"]
    if spec["kind"] == "enumerate":
        scen = enumerate_scenarios(hist)
        exhaustive = True
    else:
        scen = iter(spec["scenarios"])
        exhaustive = False
    vs = []
    n_scen = 0
    try:
        for sc in scen:
            n_scen += 1
            res = run_scenario(hist, sc, tzname, spec.get("real_tm", False), stats)
            if isinstance(res, tuple):
                found, pages = res
            else:
                found, pages = res, 1
            stats.evaluations += 1
            n = len(hist)
            cut = sc["start"] is not None or sc["end"] is not None
            nontrivial = pages > 1 or cut or bool(sc["fail"])
            if pages > 1:
                stats.probes["listing_needed_several_pages"] += 1
            if sc["fail"]:
                stats.faults["download_failure"] += len(sc["fail"])
            if cut:
                stats.probes["window_bounded"] += 1
            if spec.get("real_tm"):
                stats.probes["real_transfer_manager_scenarios"] += 1
            stats.state((n if n < 8 else "big", min(sc["page"], n + 2), sc["start"], sc["end"], sc["sample"], tuple(sc["fail"][:6])), nontrivial)
            for clause, msg, flags in found:
                v = Violation(PROP, clause, msg, flags)
                vs.append(v)
            if found:
                spec2 = dict(spec, kind="sampled", scenarios=[sc])
                spec.update(spec2)  # minimal replay: this history with this one scenario
                break
    finally:
        seams.SimTransferManager.order_rng = None
        seams.STORAGE.install(real_transfer_manager=False)
    stats.polls += n_scen
    stats.polls_ok += n_scen
    stats.extra["scenarios_enumerated_exhaustively" if exhaustive else "scenarios_sampled"] += n_scen
    stats.sim_minutes = (hist[-1]["t"] / 60.0) if hist else 0.0
    stats.sample = dict(night_seed=spec.get("night_seed"), kind=spec["kind"], versions=[h["t"] for h in hist][:12], tz=tzname,
                        scenarios=n_scen, real_transfer_manager=spec.get("real_tm", False),
                        example=(spec.get("scenarios") or [dict(page=1, start=None, end=None, sample=1, fail=[])])[0])
    import hashlib, json
    return vs, hashlib.sha256(json.dumps([n_scen, len(vs), [h["t"] for h in hist]]).encode()).hexdigest()[:24]
