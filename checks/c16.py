"""C16 -- fitting and prediction design matrices are aligned and identifiable.

Monitor invariant at the three Featurizer entry points (prepare_data, filter_to_active_features,
generate_holdout_data) on every call made while a simulated night is polled.  Reference model R6 rebuilds the
expected columns and cell values from the raw categorical levels of the frame the Featurizer was given."""
import math

import numpy as np

from checks import common as C
from nightsim import refmodels as R
from nightsim.streams import chance, choice

PROP = "C16"
PROP_NO = 16
LEVEL = "exploration"
MONITORS = ["featurizer"]
RULE = ("one evaluation = one Featurizer life cycle captured during a poll (prepare_data, then the fit / holdout extractions made from "
        "it); distinct = distinct (number of fixed effects, dict/list form with pooled 'other', whether a level was seen only outside "
        "the fitting rows, features present, centring, separate-state model, caller: conformal / bootstrap / strata / outlier model); "
        "non-trivial = at least one fixed effect with >= 2 observed levels AND (a level seen only outside the fitting rows or pooled "
        "levels)")
ASSUMPTIONS = [
    "'fitting rows' are the Featurizer's own: reporting and expected rows of the frame it was given (the training slice is the caller's)",
    "with-intercept mode (the only mode any estimator uses)",
    "rows whose raw level is missing (foreign units in the bootstrap model) are not covered by the statement and only required to be finite",
]
REAL, STUBBED = C.REAL, C.STUBBED


def budget(tier):
    return dict(nights=330, wall_s=240) if tier == "quick" else dict(nights=3500, wall_s=1700)


WORLD = dict(offices=["G", "S", "H"], unit_types=["precinct", "precinct", "county"], n_states=(1, 4), n_counties=(2, 6),
             n_units=(2, 7), zero_baseline_frac=0.03)
PROFILE = dict(estimators=["nonparametric", "gaussian", "bootstrap"], winsorize_p=0.0, outlier_models_p=0.15, n_alphas=(1, 2), max_estimands=2,
               thresholds=[100, 90, 60, 100], fixed_effects_p=1.0, features_p=0.7, B=(2, 12))
FEED = dict(p_loss=0.03, n_foreign=(0, 2), max_polls=2, poll_every=(60.0, 200.0), start_polls_after=160.0)


def make_spec(st, idx, tier):
    spec = C.state_spec(st, tier, WORLD, PROFILE, FEED, min_units=36)
    p = spec["profile"]
    rng = st.operator
    sub = spec["world"]["config"][spec["world"]["election_id"]][0]
    fes = [fe for fe in sub["fixed_effect"] if chance(rng, 0.5)] or ["county_classification"]
    if chance(rng, 0.45):
        d = {}
        for fe in fes:
            lv = sorted({str(r[fe]) for r in spec["world"]["baseline"] if r.get(fe) is not None})
            d[fe] = "all" if (chance(rng, 0.4) or len(lv) < 2) else ([x for x in lv if chance(rng, 0.5)] or [lv[0]])
        p["fixed_effects"] = d
    else:
        p["fixed_effects"] = fes
    if p["pi_method"] == "bootstrap" and len(spec["world"]["states"]) > 1 and chance(st.operator, 0.35):
        p["model_parameters"]["states_for_separate_model"] = [choice(st.operator, spec["world"]["states"])]
    return spec


def custom_sort(features):
    order = ["intercept", "baseline_normalized_margin"]

    def key(x):
        for i, s in enumerate(order):
            if x.startswith(s):
                return i
        return len(order)

    return sorted(features, key=key)


def pooled_levels(series, params):
    vals = series.tolist()
    out = []
    for v in vals:
        missing = v is None or (isinstance(v, float) and math.isnan(v))
        if "all" in params:
            out.append(None if missing else str(v))
        else:
            out.append(str(v) if (not missing and v in params) else "other")
    return out


class Checker(C.BaseChecker):
    PROP = PROP

    def after_poll(self, ex, op, rec):
        st = ex.stats
        mon = rec.extra["mon"]
        preps = mon.get("feat_prepare", [])
        holds = mon.get("feat_holdout", [])
        acts = mon.get("feat_active", [])
        out = []
        for cap in preps:
            if "monitor_error" in cap:
                st.probes["monitor_unavailable"] += 1
                continue
            fes = cap["fixed_effect_cols"]
            if not fes and not cap["features"]:
                continue
            st.evaluations += 1
            df, X, kw = cap["input"], cap["out"], cap["kw"]
            add_i = kw["add_intercept"]
            fit_mask = ((df["reporting"].to_numpy(dtype=float) == 1) & (df["unit_category"].to_numpy() == "expected"))
            if not fit_mask.any():
                continue
            sep = cap["states_for_separate_model"]
            rep_states = set(df["postal_code"][df["reporting"].to_numpy(dtype=float) == 1].tolist())
            state_feats = [f"{f}_{s}" for s in sep if s in rep_states for f in cap["features"]]
            expanded, active = [], []
            unseen_any, pooled_any, multi = False, False, False
            per_fe = {}
            for fe in fes:
                params = cap["fixed_effect_params"][fe]
                lv = pooled_levels(df[fe], params)
                all_lv = sorted({x for x in lv if x is not None})
                fit_lv = sorted({x for x, m in zip(lv, fit_mask) if m and x is not None})
                if not fit_lv:
                    continue
                # which observed level is absorbed by the intercept is the implementation's choice: read it off the result
                got_act = [c[len(fe) + 1:] for c in cap["active_features"] if c.startswith(fe + "_") and c[len(fe) + 1:] in fit_lv]
                missing_lv = [x for x in fit_lv if x not in got_act]
                if len(missing_lv) != 1:
                    out.append(self.v("absorbed_levels", f"fixed effect {fe}: observed levels {fit_lv}, fitted dummies for {got_act}: exactly one observed level must be absorbed by the intercept",
                                      n_absorbed=len(missing_lv)))
                    continue
                absorbed, act = missing_lv[0], [x for x in fit_lv if x != missing_lv[0]]
                exp = [x for x in all_lv if x != absorbed]
                per_fe[fe] = dict(levels=lv, absorbed=absorbed, active=act, expanded=exp)
                expanded += [f"{fe}_{x}" for x in exp]
                active += [f"{fe}_{x}" for x in act]
                unseen_any = unseen_any or any(x not in fit_lv for x in all_lv)
                pooled_any = pooled_any or ("all" not in params and "other" in all_lv)
                multi = multi or len(fit_lv) >= 2
            base = (["intercept"] if add_i else []) + list(cap["features"]) + state_feats
            want_complete = custom_sort(base + expanded)
            want_active = custom_sort(base + active)
            caller = "bootstrap/strata" if not kw["center_features"] else "conformal"
            flags = dict(n_fixed_effects=len(fes), pooled=pooled_any, unseen_level=unseen_any)
            if sorted(X.columns) != sorted(want_complete) or list(X.columns) != list(cap["complete_features"]):
                out.append(self.v("complete_columns", f"prepared matrix has columns {list(X.columns)}, reference model expects the set {sorted(want_complete)}", **flags))
                continue
            if sorted(cap["active_features"]) != sorted(want_active):
                out.append(self.v("active_columns", f"active (fitted) columns {cap['active_features']}, reference model expects the set {sorted(want_active)} "
                                                    f"(one observed level per fixed effect absorbed: {[(fe, d['absorbed']) for fe, d in per_fe.items()]})", **flags))
                continue
            # the order the statement fixes: intercept first, baseline-margin terms next (the rest may come in any order, as long
            # as the fit and the prediction matrices agree -- checked below)
            for cols, nm in ((list(X.columns), "prepared"), (list(cap["active_features"]), "fitted")):
                n_m = sum(1 for c in cols if c.startswith("baseline_normalized_margin"))
                head = cols[: (1 if add_i else 0) + n_m]
                if (add_i and (not cols or cols[0] != "intercept")) or any(not c.startswith("baseline_normalized_margin") for c in head[(1 if add_i else 0):]):
                    out.append(self.v("column_order", f"{nm} matrix starts with {cols[:4]}: the intercept must come first and the baseline-margin terms next", **flags))
            want_active = list(cap["active_features"])
            # cell values of the dummies; non-constant on the fitting rows; exactly one absorbed level
            for fe, d in per_fe.items():
                for x in d["expanded"]:
                    col = X[f"{fe}_{x}"].to_numpy(dtype=float)
                    want = np.array([1.0 if l == x else 0.0 for l in d["levels"]])
                    if not np.array_equal(col, want):
                        out.append(self.v("dummy_values", f"column {fe}_{x} is not the indicator of level {x!r}", **flags))
                        break
                for x in d["active"]:
                    col = X[f"{fe}_{x}"].to_numpy(dtype=float)[fit_mask]
                    if col.min() == col.max():
                        out.append(self.v("constant_fitted_dummy", f"fitted dummy {fe}_{x} is constant ({col[0]}) on the fitting rows", **flags))
            # centring over all rows
            if kw["center_features"] and not kw["scale_features"] and not sep:
                for f in cap["features"]:
                    raw = df[f].to_numpy(dtype=float)
                    if not np.allclose(X[f].to_numpy(dtype=float), raw - raw.mean(), rtol=1e-12, atol=1e-12):
                        out.append(self.v("centring", f"feature {f} is not centred over all rows given to the Featurizer", **flags))
            if state_feats or sep:
                st.probes["separate_state_model"] += 1
                for s in (sep if cap["features"] else []):
                    has = any(c.endswith("_" + s) and c.split("_" + s)[0] in cap["features"] for c in X.columns)
                    if has != (s in rep_states):
                        out.append(self.v("state_copies", f"per-state feature copies for {s}: present={has}, state has reporting units={s in rep_states}"))
            if unseen_any:
                st.probes["level_seen_only_outside_fitting_rows"] += 1
            if pooled_any:
                st.probes["levels_pooled_into_other"] += 1
            st.probes["caller:" + caller] += 1
            # the extractions made from this Featurizer
            fid = cap["fid"]
            for a in [x for x in acts if x.get("fid") == fid]:
                if list(a["out"].columns) != want_active:
                    out.append(self.v("fit_columns", f"fit matrix columns {list(a['out'].columns)} != active columns {want_active}", **flags))
                    continue
                # whichever way rows are extracted for the estimator (fit or prediction): a row whose level was not seen in
                # fitting must carry the equal share, never the all-zero pattern that means 'the absorbed level'
                E = a.get("input_expanded")
                if E is None or len(E) != len(a["out"]):
                    continue
                for fe, d in per_fe.items():
                    act_cols = [f"{fe}_{x}" for x in d["active"]]
                    inact_cols = [f"{fe}_{x}" for x in d["expanded"] if x not in d["active"] and f"{fe}_{x}" in E.columns]
                    if not act_cols or not inact_cols:
                        continue
                    unseen_rows = E[inact_cols].to_numpy(dtype=float).sum(axis=1) > 0
                    if not unseen_rows.any():
                        continue
                    got = a["out"][act_cols].to_numpy(dtype=float)[unseen_rows]
                    k = len(act_cols)
                    if not np.array_equal(got, np.full_like(got, 1.0 / (k + 1))):
                        out.append(self.v("holdout_values", f"fixed effect {fe}: a row with a level not seen in fitting was extracted for the estimator with {got[0].tolist()} on the "
                                                              f"{k} fitted levels, expected the equal share {1.0 / (k + 1)}", unseen_row=True, **flags))
                        break
                    st.probes["extracted_row_with_unseen_level_has_equal_share"] += 1
            for h in [x for x in holds if x.get("fid") == fid]:
                Hin, Hout = h["input"], h["out"]
                if list(Hout.columns) != want_active:
                    out.append(self.v("holdout_columns", f"prediction matrix columns {list(Hout.columns)} differ from the fit matrix columns {want_active}", **flags))
                    continue
                for fe, d in per_fe.items():
                    act_cols = [f"{fe}_{x}" for x in d["active"]]
                    inact_cols = [f"{fe}_{x}" for x in d["expanded"] if x not in d["active"]]
                    k = len(act_cols)
                    if not act_cols:
                        continue
                    unseen_rows = (Hin[inact_cols].to_numpy(dtype=float).sum(axis=1) > 0) if inact_cols else np.zeros(len(Hin), dtype=bool)
                    got = Hout[act_cols].to_numpy(dtype=float)
                    want = Hin[act_cols].to_numpy(dtype=float).copy()
                    want[unseen_rows, :] = 1.0 / (k + 1)
                    if not np.array_equal(got, want):
                        bad = int(np.where(np.abs(got - want).sum(axis=1) > 0)[0][0])
                        out.append(self.v("holdout_values", f"fixed effect {fe}: prediction row {bad} has {got[bad].tolist()} on the {k} fitted levels, expected {want[bad].tolist()} "
                                                              f"({'level not seen in fitting => equal share 1/(k+1)' if unseen_rows[bad] else 'indicator of its level'})",
                                          unseen_row=bool(unseen_rows[bad]), **flags))
                        break
                    if unseen_rows.any():
                        st.probes["holdout_row_with_unseen_level"] += 1
                other = [c for c in want_active if not any(c.startswith(fe + "_") for fe in per_fe)]
                if other and not np.array_equal(Hout[other].to_numpy(dtype=float), Hin[other].to_numpy(dtype=float)):
                    out.append(self.v("holdout_values", "non-fixed-effect columns changed in the prediction matrix", unseen_row=False, **flags))
            nontrivial = multi and (unseen_any or pooled_any)
            st.state((len(fes), any("all" not in cap["fixed_effect_params"][fe] for fe in fes), unseen_any, bool(cap["features"]), kw["center_features"],
                      bool(sep), caller, rec.profile["pi_method"]), nontrivial)
            if len(out) > 6:
                break
        return out


def checker(spec):
    return Checker(spec)


def summarise(ex, stats):
    stats.sim_minutes = ex.spec.get("feed_stats", {}).get("sim_minutes", 0.0)
    stats.sample = C.sample_of(ex.spec)
