"""C15 -- gaussian intervals use a group's own calibration if big enough, else its parent.

Monitor invariant: after every call of GaussianElectionModel.get_aggregate_prediction_intervals the captured model
rows (one per group with outstanding units), calibration frame and unadjusted unit bounds are re-derived by the
reference model R5: model selection (own / parent / ... / all), centre (weighted median), variance inflation, scale
(re-bootstrapped with the same seed), and the published formula for the bounds."""
import math

import numpy as np
from scipy import stats as sps

from checks import common as C
from nightsim import refmodels as R
from nightsim.profile import profile_signature
from nightsim.world import world_signature

PROP = "C15"
PROP_NO = 15
LEVEL = "exploration"
MONITORS = ["gaussian_aggregate"]
RULE = ("one evaluation = one captured aggregate-interval computation (aggregate level x interval level x estimand) of a gaussian "
        "poll; distinct = distinct (office, key depth, which sources were used: own / parent / grandparent / all, group present only "
        "among nonreporting units, levels); non-trivial = at least two different sources were used in the same computation, or a "
        "group had no calibration unit at all")
ASSUMPTIONS = [
    "the scale is re-bootstrapped with scipy.stats.bootstrap (trusted) and must agree within 4 % (bit-for-bit agreement with the model's seed is only counted as a probe); with winsorize=True the reference statistic is the standard deviation after replacing the 5 % tails of each sample by the nearest remaining value",
    "reported bounds are compared with the formula at +-1 vote (rounding)",
    "centre / inflation compared at 1e-12 relative",
]
REAL, STUBBED = C.REAL, C.STUBBED


def budget(tier):
    return dict(nights=220, wall_s=240) if tier == "quick" else dict(nights=3500, wall_s=1700)


WORLD = dict(offices=["G", "S", "H"], unit_types=["precinct", "precinct", "county"], n_states=(1, 4), n_counties=(2, 8),
             n_units=(2, 12), zero_baseline_frac=0.03)
PROFILE = dict(estimators=["gaussian"], winsorize_p=0.06, outlier_models_p=0.05, n_alphas=(1, 2), max_estimands=2,
               thresholds=[100, 90, 60, 100], agg_subset=True, always_unit=True)
FEED = dict(p_loss=0.03, n_foreign=(0, 2), max_polls=2, poll_every=(60.0, 200.0), start_polls_after=200.0, surge_frac=0.04)


def make_spec(st, idx, tier):
    return C.state_spec(st, tier, WORLD, PROFILE, FEED, min_units=40)


def weighted_median(x, w):
    """Reference: same convention as the repository documents (weights normalised; average on an exact tie)."""
    order = np.argsort(x)
    xs, ws = x[order], (w / w.sum())[order]
    cum = np.cumsum(ws)
    if cum[0] > 0.5:
        return float(xs[0])
    k = int(np.where(cum <= 0.5)[0][-1])
    if cum[k] == 0.5:
        return float((xs[k] + xs[k + 1]) / 2)
    return float(xs[k + 1])


def winsorized_std(a, axis=-1):
    """Reference for the winsorize option: within each sample (last axis) the lowest and highest 5 % of the values are replaced
    by the nearest remaining value, then the sample standard deviation is taken."""
    s = np.sort(np.asarray(a, dtype=float), axis=-1)
    n = s.shape[-1]
    k = int(0.05 * n)
    if k > 0:
        s[..., :k] = s[..., k:k + 1]
        s[..., n - k:] = s[..., n - k - 1:n - k]
    return np.std(s, ddof=1, axis=-1)


def boot_scale(x, conf, seed, winsorize=False):
    stat = winsorized_std if winsorize else (lambda a, axis: np.std(a, ddof=1, axis=-1))
    r = sps.bootstrap(x.reshape(1, -1), stat, confidence_level=conf, method="basic",
                      n_resamples=10000, random_state=np.random.default_rng(seed))
    return float(r.confidence_interval.high)


class Checker(C.BaseChecker):
    PROP = PROP

    def after_poll(self, ex, op, rec):
        st = ex.stats
        if not rec.ok or not ex.table.unique_ids():
            return []
        p = rec.profile
        mp = p["model_parameters"]
        seed = mp.get("seed", 4191)
        beta = mp.get("beta", 1)
        wins = mp.get("winsorize", False)
        units, _ = R.categorise(ex.world, rec.rows, p)
        utab, _ = C.unit_rows(rec.tables["unit_data"]) if "unit_data" in rec.tables else ({}, [])
        flagged = C.flagged_by_outlier_model(utab)
        out = []
        unadj = {}
        for b_ in rec.extra["mon"].get("interval_bounds", []):
            if "monitor_error" not in b_:
                unadj[(b_["estimand"], b_["alpha"])] = b_
        for cap in rec.extra["mon"].get("gaussian_agg", []):
            if "monitor_error" in cap:
                st.probes["monitor_unavailable"] += 1
                continue
            keys, alpha, e = cap["aggregate"], cap["alpha"], cap["estimand"]
            mb = cap["modeled_bounds"]
            non = cap["nonreporting"]
            if len(non) == 0:
                continue
            st.evaluations += 1
            conf = cap["conformalization"]
            wcol = f"last_election_results_{e}"
            n_cal = len(conf)
            T = min(10, n_cal)
            G = sorted(set(C.key_tuples(non, keys)))
            if mb is None:
                out.append(self.v("no_model", f"{keys} level {alpha}: no model rows although {len(G)} groups have outstanding units"))
                continue
            got_groups = C.key_tuples(mb, keys)
            if sorted(got_groups) != G:
                miss = sorted(set(G) - set(got_groups))
                dup = sorted({g for g in got_groups if got_groups.count(g) > 1})
                out.append(self.v("model_rows", f"{keys} level {alpha}: groups with outstanding units {len(G)}, model rows {len(got_groups)}; missing {miss[:3]} duplicated {dup[:3]}",
                                  missing=bool(miss), duplicated=bool(dup), depth=len(keys)))
                continue
            conf_keys = C.key_tuples(conf, keys)
            cl, cu = conf["lower_bounds"].to_numpy(dtype=float), conf["upper_bounds"].to_numpy(dtype=float)
            cw = conf[wcol].to_numpy(dtype=float)
            non_keys = C.key_tuples(non, keys)
            nw = non[wcol].to_numpy(dtype=float)
            nres = non[f"results_{e}"].to_numpy(dtype=float)
            ub_ = unadj.get((e, alpha))
            if ub_ is None or len(ub_["lower"]) != len(non):
                st.probes["monitor_unavailable"] += 1
                continue
            ul, uu = ub_["lower"], ub_["upper"]
            rows = {tuple(r[k] for k in keys): r for r in mb.to_dict("records")}
            used = set()
            sigma_by_source = {}
            q = (3 + alpha) / 4
            # final table of this aggregate
            table = None
            for agg in p["aggregates"]:
                if agg != "unit" and R.aggregate_keys(ex.world["office"], agg) == keys:
                    table = rec.tables.get(R.TABLE_NAME[agg])
                    ledger = R.ledger(ex.world, units, agg, [e], flagged)[1]
            final = C.index_rows(table, keys) if table is not None else {}
            for g in G:
                # R5: first ancestor with at least T calibration units
                src = None
                for depth in range(len(keys), -1, -1):
                    idx = [i for i, k in enumerate(conf_keys) if k[:depth] == g[:depth]]
                    if len(idx) >= T and (depth == 0 or len(idx) > 0):
                        src = (depth, g[:depth])
                        break
                if src is None:
                    src = (0, ())
                    idx = list(range(n_cal))
                used.add(len(keys) - src[0])
                r = rows[g]
                ii = np.array(idx, dtype=int)
                label = {0: "own", 1: "parent", 2: "grandparent"}.get(len(keys) - src[0], "all") if src[0] > 0 else "all"
                flags = dict(depth=len(keys), source=label)
                mu_l, mu_u = weighted_median(cl[ii], cw[ii]), weighted_median(cu[ii], cw[ii])
                infl = float(np.sum(cw[ii] ** 2) / np.sum(cw[ii]) ** 2)
                for name, want in (("mu_lower_bound", mu_l), ("mu_upper_bound", mu_u), ("var_inflate", infl)):
                    if not C.close(C.fnum(r[name]), want, rel=1e-12, abs_=1e-15):
                        out.append(self.v("wrong_statistics", f"{keys}{g} level {alpha}: {name}={r[name]} but the calibration units of its source "
                                                               f"({label} {src[1]}, n={len(idx)}, threshold {T}) give {want}", statistic=name.split("_")[0], **flags))
                        break
                sig = (C.fnum(r["sigma_lower_bound"]), C.fnum(r["sigma_upper_bound"]))
                if src in sigma_by_source and sigma_by_source[src] != sig:
                    out.append(self.v("scale_not_shared", f"{keys}{g}: groups sharing source {src} carry different scales {sigma_by_source[src]} vs {sig}", **flags))
                elif src not in sigma_by_source:
                    sigma_by_source[src] = sig
                    if len(idx) >= 2:
                        want_s = (beta * boot_scale(cl[ii], q, seed, wins), beta * boot_scale(cu[ii], q, seed, wins))
                        if wins:
                            st.probes["winsorized_scale_recomputed"] += 1
                        if C.close(sig[0], want_s[0], rel=1e-12) and C.close(sig[1], want_s[1], rel=1e-12):
                            st.probes["scale_reproduced_bit_for_bit"] += 1
                        # the statement asks for the bootstrapped scale of the source's calibration units, not for a particular
                        # generator state: 4 % covers the Monte-Carlo error of 10 000 resamples (about 1 %) several times over
                        if not (C.close(sig[0], want_s[0], rel=0.04, abs_=1e-12) and C.close(sig[1], want_s[1], rel=0.04, abs_=1e-12)):
                            out.append(self.v("wrong_scale", f"{keys}{g} level {alpha}: scale {sig} but bootstrapping the scores of its source ({label}, n={len(idx)}) gives {want_s}", **flags))
                # unadjusted group bounds and weights from the units of g
                jj = np.array([i for i, k in enumerate(non_keys) if k == g], dtype=int)
                W, SS = float(nw[jj].sum()), float((nw[jj] ** 2).sum())
                al, au = float((nw[jj] * ul[jj]).sum()), float((nw[jj] * uu[jj]).sum())
                for name, want in (("nonreporting_weight_sum", W), ("nonreporting_weight_ssum", SS), ("nonreporting_aggregate_lower_bound", al), ("nonreporting_aggregate_upper_bound", au)):
                    if not C.close(C.fnum(r[name]), want, rel=1e-9, abs_=1e-9):
                        out.append(self.v("wrong_group_sums", f"{keys}{g}: {name}={r[name]} but its outstanding units give {want}", **flags))
                        break
                if g in final and not any(v.clause in ("wrong_statistics", "wrong_group_sums") for v in out):
                    sd_l = sig[0] * math.sqrt(SS + infl * W * W)
                    sd_u = sig[1] * math.sqrt(SS + infl * W * W)
                    lb = al - sps.norm.ppf(q, loc=W * mu_l, scale=sd_l)
                    ub = au + sps.norm.ppf(q, loc=W * mu_u, scale=sd_u)
                    part = float(nres[jj].sum())
                    L = ledger.get(g)
                    if L is None:
                        continue
                    cnt = float(sum(R.counted(units[f], e) for f in L["reporting"] + L["other"]))
                    want_lo, want_up = max(W + lb, part) + cnt, max(W + ub, part) + cnt
                    got_lo, got_up = C.fnum(final[g][f"lower_{alpha}_{e}"]), C.fnum(final[g][f"upper_{alpha}_{e}"])
                    if max(W + lb, part) == part:
                        st.probes["gaussian_lower_bound_floored_at_partial_count"] += 1
                    if not (math.isfinite(got_lo) and math.isfinite(got_up)):
                        out.append(self.v("not_finite", f"{keys}{g} level {alpha}: interval [{got_lo}, {got_up}]", **flags))
                    elif abs(got_lo - want_lo) > 1.0000001 or abs(got_up - want_up) > 1.0000001:
                        out.append(self.v("bounds_formula", f"{keys}{g} level {alpha}: reported [{got_lo}, {got_up}] but the formula on its own model row gives [{want_lo:.2f}, {want_up:.2f}]", **flags))
                if not any(k == g for k in conf_keys):
                    st.probes["group_without_any_calibration_unit"] += 1
            for u in used:
                st.probes["source:" + {0: "own", 1: "parent", 2: "grandparent"}.get(u, "all") if u < len(keys) else "source:all"] += 1
            nontrivial = len(used) >= 2 or any(not any(k == g for k in conf_keys) for g in G)
            st.state((ex.world["office"], len(keys), tuple(sorted(used)), n_cal >= 10, round(alpha, 1), len(G) > 3), nontrivial)
            if len(out) > 6:
                break
        return out


def checker(spec):
    return Checker(spec)


def summarise(ex, stats):
    stats.sim_minutes = ex.spec.get("feed_stats", {}).get("sim_minutes", 0.0)
    stats.sample = C.sample_of(ex.spec)
