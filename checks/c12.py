"""C12 -- estimates are a deterministic function of the arguments.

History check: the same poll is repeated on the same client, after polls with other arguments, on a fresh client
(runner crash-restart), with the very same argument objects re-used, and -- for whole nights -- in fresh
interpreters under other hash seeds.  The national summary and HistoricalModelClient are included."""
import copy
import hashlib
import json
import os
import subprocess
import sys

from checks import common as C
from checks import c10 as H
from nightsim import refmodels as R
from nightsim import seams
from nightsim.framework import VERIF, NightExec, Violation
from nightsim.profile import make_profile, profile_signature
from nightsim.runner import table_digest, tables_digest
from nightsim.streams import chance, choice
from nightsim.world import world_signature

PROP = "C12"
PROP_NO = 12
LEVEL = "exploration"
RULE = ("one evaluation = one repeated poll compared with the night's reference poll (same arguments, different history: same client, "
        "after other arguments, fresh client, re-used argument objects) or one night digest compared across hash seeds; distinct = "
        "distinct (estimator, estimand set, history kind, summary requested); non-trivial = the reference poll produced estimates")
ASSUMPTIONS = [
    "equality is bit-for-bit on every cell of every returned table (no tolerance): equal arguments, equal process, equal code",
    "hash seeds compared: PYTHONHASHSEED 0 (the batch itself), 1 and 4242 in fresh interpreters (fixed values so the comparison itself replays)",
    "the scipy bootstrap seam is NOT owned by the simulator here: determinism of the gaussian scale is the property",
]
REAL, STUBBED = C.REAL, C.STUBBED


def budget(tier):
    return dict(nights=56, wall_s=240, hash_nights=12) if tier == "quick" else dict(nights=900, wall_s=1500, hash_nights=150)


WORLD = dict(offices=["G", "S", "H"], unit_types=["precinct", "precinct", "county"], n_states=(1, 3), n_counties=(2, 6),
             n_units=(2, 7), zero_baseline_frac=0.03)
PROFILE = dict(estimators=["nonparametric", "gaussian", "gaussian", "bootstrap", "bootstrap"], B=(2, 20), winsorize_p=0.0,
               outlier_models_p=0.15, lambda_p=0.03)
FEED = dict(p_loss=0.03, n_foreign=(0, 2), max_polls=0, surge_frac=0.02, boundary_frac=0.03)


def make_spec(st, idx, tier):
    if idx % 8 == 7:
        spec = H.make_historical_spec(st, idx, tier)
        spec["kind"] = "historical_repeat"
        spec["profile"]["aggregates"] = ["postal_code", "county_fips", "county_classification"]
        return spec
    if idx % 4 == 1:
        # district office with few, large districts: the bootstrap model gives each district with more than 10 units its own
        # contest effect, so the order in which those contests are enumerated matters for the seeded draws
        spec = C.state_spec(st, tier, dict(WORLD, offices=["H"], n_states=(1, 2), n_counties=(5, 8), n_units=(5, 9), n_districts=(2, 3)),
                            dict(PROFILE, estimators=["bootstrap"]), FEED, min_units=60)
    else:
        spec = C.state_spec(st, tier, WORLD, PROFILE, FEED, min_units=30)
    world, profile = spec["world"], spec["profile"]
    if profile["pi_method"] == "bootstrap" and chance(st.shadow, 0.6):
        # more than one stratum column (a model setting whose order is part of the arguments)
        cols = ["county_classification", "postal_code"]
        profile["model_parameters"]["strata"] = cols if chance(st.shadow, 0.5) else cols[::-1]
    cut = float(st.sched.uniform(230, 480))
    ops = [o for o in spec["ops"] if o["t"] <= cut]
    rng = st.shadow
    ns = None
    if profile["pi_method"] == "bootstrap":
        if "postal_code" in profile["aggregates"]:
            profile["aggregates"] = ["postal_code"] + [a for a in profile["aggregates"] if a != "postal_code"]
        ns = dict(weights=None, base=int(rng.integers(0, 50)), alphas=[0.9, 0.7])
    other = make_profile(rng, world, dict(PROFILE))
    A = dict(role="repeat", national_summary=ns)
    # the poll with other arguments also asks for a national summary, at OTHER levels and base (when it is a bootstrap run)
    other_ns = dict(weights=None, base=7, alphas=[0.5, 0.99]) if other["pi_method"] == "bootstrap" and "postal_code" in other["aggregates"] else None
    if other_ns:
        other["aggregates"] = ["postal_code"] + [a for a in other["aggregates"] if a != "postal_code"]
    same_kind_ns = dict(weights=None, base=3, alphas=[0.6]) if ns is not None else None
    seq = [dict(k="poll", role="reference", fresh_client=True, national_summary=ns),
           dict(A, k="poll", history="same_client"),
           dict(k="poll", role="other_args", override=other, national_summary=other_ns),
           dict(k="poll", role="other_args", national_summary=same_kind_ns) if same_kind_ns else dict(k="poll", role="other_args", override=dict(prediction_intervals=[0.55])),
           dict(A, k="poll", history="after_other_args"),
           dict(k="crash"),
           dict(A, k="poll", history="fresh_client_after_crash"),
           dict(A, k="poll", history="reused_argument_objects_1", reuse_args=True),
           dict(A, k="poll", history="reused_argument_objects_2", reuse_args=True),
           dict(A, k="poll", history="defaults_omitted", override=dict(omit_defaults=True)),
           dict(A, k="poll", history="live_feed_frame_1", inplace_feed=True),
           dict(A, k="poll", history="live_feed_frame_2", inplace_feed=True)]
    # failed requests in between: one that the library refuses (it names another office / election), one that ends in the
    # too-few-units error (only the first two deliveries of the night are in the feed)
    few = []
    for o in ops:
        if o["k"] == "deliver" and o["u"] not in [r["geographic_unit_fips"] for r in few]:
            few.append(dict(o["row"]))
        if len(few) == 2:
            break
    bad = choice(rng, [dict(office=choice(rng, [x for x in ["G", "S", "H", "P"] if x != world["office"]])), dict(election_id="2021-11-02_VA_G"),
                       dict(unit_type=choice(rng, [x for x in ["precinct", "county", "county-district"] if x != world["unit_type"]]))])
    seq[5:5] = [dict(k="poll", role="other_args", override=dict(request_ids=bad), national_summary=None),
                dict(A, k="poll", history="after_rejected_request"),
                dict(k="poll", role="other_args", rows=few),
                dict(A, k="poll", history="after_too_few_units_error")]
    # the configuration of the same election is edited between polls (first an edited one on a fresh client, then the real one)
    patches = [dict(aggregates=["postal_code"], features=[], fixed_effect=[])]
    if len(world["states"]) > 1:
        patches.append(dict(states=world["states"][:-1]))
    if any(e in ("dem", "gop") for e in profile["estimands"]):
        patches.append(dict(baseline_pointer={"dem": "gop", "gop": "dem", "turnout": "turnout"}))
    seq += [dict(k="crash"),
            dict(k="poll", role="other_args", override=dict(config_patch=choice(rng, patches))),
            dict(A, k="poll", history="after_other_configuration")]
    if chance(rng, 0.5):
        seq.insert(3, dict(k="poll", role="other_args", override=dict(estimands=(["margin"] if profile["pi_method"] == "bootstrap" else ["turnout"]),
                                                                     prediction_intervals=[0.6]), reuse_args=True))
    for i, o in enumerate(seq):
        o["t"] = round(cut + 0.001 * (i + 1), 4)
    spec["ops"] = ops + seq
    return spec


def first_difference(world, a, b):
    for name in sorted(set(a.tables) | set(b.tables)):
        if name not in a.tables or name not in b.tables:
            return f"table {name} present only once"
        A, B = a.tables[name], b.tables[name]
        if list(A.columns) != list(B.columns):
            return f"{name}: columns {list(A.columns)} vs {list(B.columns)}"
        if len(A) != len(B):
            return f"{name}: {len(A)} vs {len(B)} rows"
        ra, rb = A.to_dict("records"), B.to_dict("records")
        for i, (x, y) in enumerate(zip(ra, rb)):
            d = C.diff_rows(x, y, list(A.columns))
            if d:
                key = {k: x.get(k) for k in C.table_keys(world, name) if k in x}
                return f"{name} row {i} {key}: {d[0]} = {x[d[0]]!r} vs {y[d[0]]!r}"
    if a.nat_sum is not None and b.nat_sum is not None and table_digest(a.nat_sum) != table_digest(b.nat_sum):
        return f"national summary {a.nat_sum.to_dict('records')} vs {b.nat_sum.to_dict('records')}"
    return "digests differ"


class Checker(C.BaseChecker):
    PROP = PROP

    def __init__(self, spec):
        super().__init__(spec)
        self.ref = None

    def after_poll(self, ex, op, rec):
        st = ex.stats
        if op.get("role") == "reference":
            self.ref = rec
            st.probes["reference_ok" if rec.ok else "reference_failed:" + (rec.exc_type or "").split(".")[-1]] += 1
            return []
        if op.get("role") != "repeat" or self.ref is None:
            return []
        ref = self.ref
        st.evaluations += 1
        p = rec.profile
        hist = op.get("history")
        st.probes["history:" + str(hist)] += 1
        if rec.extra.get("defaults_omitted"):
            st.probes["keywords_left_at_their_default:%d" % min(6, len(rec.extra["defaults_omitted"]))] += 1
        out = []
        if rec.digest != ref.digest:
            if ref.ok != rec.ok or ref.exc_type != rec.exc_type:
                msg = f"outcome {ref.exc_type or 'estimates'} vs {rec.exc_type or 'estimates'} ({rec.exc_msg})"
            else:
                msg = first_difference(ex.world, ref, rec)
            out.append(self.v("not_deterministic", f"equal arguments, history '{hist}': {msg}", estimator=p["pi_method"], history=hist.rstrip("_12"),
                              margin="margin" in p["estimands"]))
        st.state((p["pi_method"], tuple(sorted(p["estimands"])), hist, op.get("national_summary") is not None, ex.world["office"]), ref.ok)
        return out


def checker(spec):
    return Checker(spec)


def _canon_eval(o):
    if isinstance(o, dict):
        return sorted(((repr(k), _canon_eval(v)) for k, v in o.items()), key=lambda kv: kv[0])
    if isinstance(o, (list, tuple)):
        return [_canon_eval(x) for x in o]
    if isinstance(o, float):
        return repr(o)
    return repr(o)


def _digest_eval(obj):
    return hashlib.sha256(json.dumps(_canon_eval(obj)).encode()).hexdigest()[:24]


def run_historical_repeat(spec, stats):
    """HistoricalModelClient (its aggregate list goes through list(set(...))): two runs in this process must agree,
    and the digest takes part in the cross-hash-seed comparison."""
    from elexmodel.client import HistoricalModelClient
    import pandas as pd
    from nightsim.runner import FEED_COLS

    world, p = spec["world"], spec["profile"]
    eid, hid = world["election_id"], "2018-11-06_USA_G"
    cfg = copy.deepcopy(world["config"])
    cfg[eid][0]["historical_election"] = [hid]
    hcfg = {hid: copy.deepcopy(cfg[eid])}
    digs = []
    msgs = []
    for rep in range(2):
        bucket = seams.STORAGE.new_night()
        seams.set_app_env("local")
        root = "elex-models-dev"
        bucket.seed_object(f"{root}/{eid}/config/{eid}.json", json.dumps(cfg))
        bucket.seed_object(f"{root}/{hid}/config/{hid}.json", json.dumps(hcfg))
        bucket.seed_object(f"{root}/{hid}/data/{world['office']}/data_{world['unit_type']}.csv", pd.DataFrame(spec["hist"]).to_csv(index=False))
        cur = pd.DataFrame(spec["live"])[FEED_COLS]
        cur["geographic_unit_fips"] = cur["geographic_unit_fips"].astype(str)
        try:
            res = HistoricalModelClient().get_historical_evaluation(
                cur, eid, world["office"], list(p["estimands"]), list(p["prediction_intervals"]), p["threshold"], world["unit_type"],
                pi_method=p["pi_method"], aggregates=list(p["aggregates"]), features=list(p["features"]),
                model_parameters=copy.deepcopy(p["model_parameters"]), save_output=[])
            est = res[hid]["estimates"]
            msgs.append("ok")
        except Exception as e:  # noqa: BLE001
            d = f"exc:{type(e).__qualname__}"
            msgs.append(f"{type(e).__qualname__}: {e}")
        else:
            d = tables_digest(est) + _digest_eval(res[hid]["evaluation"])
        digs.append(d)
    stats.polls += 2
    stats.evaluations += 1
    if msgs[0] == "ok":
        stats.polls_ok += 2
        stats.probes["historical_client_ok"] += 1
    else:
        stats.repo_errors[msgs[0].split(":")[0]] += 1
        import re as _re
        stats.extra["exc(historical): " + _re.sub(r"[0-9]+", "N", msgs[0])[:120]] += 1
    out = []
    if digs[0] != digs[1]:
        out.append(Violation(PROP, "not_deterministic", f"HistoricalModelClient, equal arguments twice in one process: {msgs}", dict(estimator=p["pi_method"], history="historical_client")))
    stats.state(("historical", p["pi_method"], p["threshold"]), msgs[0] == "ok")
    stats.sample = dict(kind="historical_repeat", night_seed=spec.get("night_seed"), units=len(world["baseline"]), profile=p)
    return out, hashlib.sha256("".join(digs).encode()).hexdigest()[:24]


def run_hashseed(spec, stats):
    """Replay form of a cross-hash-seed disagreement: run the named night in fresh interpreters."""
    digs = {}
    for hs in spec["hashseeds"]:
        digs[hs] = night_digests(spec["seed"], [spec["idx"]], spec["tier"], hs).get(spec["idx"])
    stats.evaluations += 1
    stats.state(("hashseed",), True)
    out = []
    if len(set(digs.values())) > 1:
        out.append(Violation(PROP, "not_deterministic", f"night {spec['idx']} has different event-log digests under different hash seeds: {digs}", dict(history="hash_seed")))
    return out, "hashseed"


def run_custom(spec, stats):
    if spec.get("kind") == "historical_repeat":
        return run_historical_repeat(spec, stats)
    if spec.get("kind") == "hashseed":
        return run_hashseed(spec, stats)
    ex = NightExec(spec, Checker(spec), stats)
    vs = ex.run()
    stats.sim_minutes = ex.spec.get("feed_stats", {}).get("sim_minutes", 0.0)
    stats.sample = C.sample_of(ex.spec, max_ops=3) | dict(polls=[{k: v for k, v in o.items() if k in ("role", "history", "reuse_args", "fresh_client")} for o in ex.spec["ops"] if o["k"] in ("poll", "crash")])
    return vs, ex.digest()


def night_digests(seed, idxs, tier, hashseed, workers=8):
    env = dict(os.environ)
    env["PYTHONHASHSEED"] = str(hashseed)
    env["VERIF_SEED"] = str(seed)
    cmd = [os.path.join(VERIF, "bin", "check"), PROP, "--tier", tier, "--digests", "--no-evidence", "--no-shrink", "--quiet", "--no-post",
           "--only", ",".join(map(str, idxs)), "--workers", str(workers)]
    p = subprocess.run(cmd, capture_output=True, text=True, env=env, timeout=1500)
    out = {}
    for line in p.stdout.splitlines():
        if line.startswith("DIGEST "):
            _, i, d = line.split()
            out[int(i)] = d
    return out


def post_batch(seed, tier, results, stats_extra):
    """Cross-hash-seed comparison of whole nights in fresh interpreters (the batch itself ran under PYTHONHASHSEED=0)."""
    n = budget(tier)["hash_nights"]
    idxs = sorted(results)[:n]
    viol = []
    compared = 0
    for hs in (1, 4242):
        d = night_digests(seed, idxs, tier, hs)
        for i in idxs:
            if i not in d:
                continue
            compared += 1
            if d[i] != results[i]["digest"]:
                spec = dict(kind="hashseed", idx=i, seed=seed, tier=tier, hashseeds=[0, hs], ops=[], property=PROP)
                viol.append((i, Violation(PROP, "not_deterministic", f"night {i}: digest {results[i]['digest']} under PYTHONHASHSEED=0 but {d[i]} under {hs}",
                                          dict(history="hash_seed")).to_dict(), spec))
    stats_extra["hash_seed_night_comparisons"] = compared
    stats_extra["hash_seeds"] = [0, 1, 4242]
    return viol
