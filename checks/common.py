"""Shared pieces of the check families."""
import collections
import copy
import math

import numpy as np

from nightsim import refmodels as R
from nightsim.framework import Violation
from nightsim.night import schedule_night
from nightsim.profile import make_profile, profile_signature
from nightsim.streams import chance, choice
from nightsim.world import make_world, world_signature

REAL = ["elexmodel (all of it, from <repo>/src)", "elex-solver", "scipy (HiGHS linprog, stats)", "cvxpy/Clarabel",
        "pandas", "numpy"]
STUBBED = ["results provider / feed (unit processes + transport)", "operator", "S3 service (sim bucket)",
           "botocore session / transfer manager", "clock (simulated minutes)"]


def state_spec(st, tier, world_knobs=None, profile_knobs=None, feed_knobs=None, extra_events=None, min_units=12):
    """World + profile + scheduled night for the state-invariant families."""
    for _ in range(20):
        world = make_world(st.world, world_knobs)
        if len(world["baseline"]) >= min_units:
            break
    profile = make_profile(st.operator, world, profile_knobs)
    mp = profile["model_parameters"]
    tf = (mp.get("turnout_factor_lower", 0.5), mp.get("turnout_factor_upper", 2.0))
    ev = extra_events(st, world, profile) if callable(extra_events) else (extra_events or ())
    ops, fstats = schedule_night(st, world, feed_knobs, threshold=profile["threshold"], tf_limits=tf, extra_events=ev)
    return dict(world=world, profile=profile, ops=ops, feed_stats=fstats)


def add_unrequested_gaps(st, spec, p=0.03):
    """Feed fault: a party count that NO requested estimand needs (and that the weights do not need: vote-count estimands
    only) has not arrived yet for a unit whose other counts have.  The unit is as reporting as its expected-vote share says."""
    est = spec["profile"]["estimands"]
    free = [c for c in ("dem", "gop") if c not in est]
    if "margin" in est or not free:
        return 0
    n = 0
    for o in spec["ops"]:
        if o["k"] == "deliver" and st.feed.random() < p:
            c = free[int(st.feed.integers(0, len(free)))]
            o["row"] = dict(o["row"], **{f"results_{c}": None})
            o["unrequested_gap"] = True
            n += 1
    spec["feed_stats"]["unrequested_gaps"] = n
    return n


def feed_as_lists_polls(st, spec, p=0.15):
    """Call style: some polls hand the feed over as a list of lists (first element = column names) instead of a DataFrame."""
    n = 0
    for o in spec["ops"]:
        if o["k"] == "poll" and st.feed.random() < p:
            o["feed_as_lists"] = True
            n += 1
    return n


def arrival_polls(st, spec, p=0.2):
    """Some polls receive the same data in another container shape (rows permuted, index labels not 0..n-1 or repeated, columns
    permuted, an extra column in the feed).  The state invariants do not depend on any of that."""
    n = 0
    for o in spec["ops"]:
        if o["k"] == "poll" and not o.get("feed_as_lists") and not o.get("inplace_feed") and not o.get("reuse_args") and st.feed.random() < p:
            r = st.feed
            o["arrival"] = dict(seed=int(r.integers(0, 2**31)),
                                feed_index=[None, "all_equal", "repeating", "reversed_sparse"][int(r.integers(0, 4))],
                                feed_extra_col=bool(r.random() < 0.3), feed_cols=bool(r.random() < 0.4),
                                base_index=[None, None, "repeating", "reversed_sparse"][int(r.integers(0, 4))], base_cols=bool(r.random() < 0.4))
            n += 1
    return n


def table_for(agg):
    return R.TABLE_NAME[agg]


def colvals(df, col):
    return df[col].tolist()


def key_tuples(df, keys):
    cols = [df[k].tolist() for k in keys]
    return list(zip(*cols)) if cols else []


def fnum(x):
    try:
        return float(x)
    except (TypeError, ValueError):
        return float("nan")


def category_columns(df):
    return [c for c in df.columns if c == "unit_category" or c.startswith("unit_category_")]


def unit_rows(df):
    """unit_data as {fips: row dict}; duplicates reported separately."""
    out = {}
    dups = []
    recs = df.to_dict("records")
    for r in recs:
        f = r["geographic_unit_fips"]
        if f in out:
            dups.append(f)
        out[f] = r
    return out, dups


def flagged_by_outlier_model(unit_tab):
    out = set()
    for f, r in unit_tab.items():
        for c in r:
            if c.startswith("unit_category") and isinstance(r[c], str) and r[c].endswith(" modeled"):
                out.add(f)
    return out


def feed_summary(ex, rec):
    rows = rec.rows
    return dict(n_rows=len(rows))


def sample_of(spec, max_ops=14):
    """A readable excerpt of a night for the evidence file."""
    ops = []
    for o in spec["ops"][:max_ops]:
        d = {k: v for k, v in o.items() if k in ("t", "k", "u", "ver", "role", "pev", "set", "override", "solver_fault", "put_fault")}
        if "row" in o:
            d["row"] = [o["row"]["percent_expected_vote"], o["row"]["results_dem"], o["row"]["results_gop"], o["row"]["results_turnout"]]
        ops.append(d)
    p = spec.get("profile", {})
    w = spec.get("world", {})
    return dict(
        night_seed=spec.get("night_seed"),
        world=dict(office=w.get("office"), unit_type=w.get("unit_type"), states=w.get("states"), units=len(w.get("baseline", []))),
        profile={k: p.get(k) for k in ("pi_method", "estimands", "prediction_intervals", "threshold", "aggregates", "features",
                                       "fixed_effects", "handle_unreporting", "model_parameters", "save_output", "app_env")},
        n_ops=len(spec["ops"]),
        first_ops=ops,
    )


def close(a, b, rel=1e-9, abs_=1e-9):
    if a is None or b is None:
        return False
    if isinstance(a, float) and isinstance(b, float) and math.isnan(a) and math.isnan(b):
        return True
    return abs(a - b) <= max(abs_, rel * max(abs(a), abs(b)))


class BaseChecker:
    PROP = "C00"

    def __init__(self, spec):
        self.spec = spec

    def v(self, clause, message, **flags):
        return Violation(self.PROP, clause, message, flags)

    def after_poll(self, ex, op, rec):
        return []

    def finish(self, ex):
        return []


# ------------------------------------------------------------------ pairwise comparison of poll outputs

KEY_COLS = {"unit_data": ["postal_code", "geographic_unit_fips"]}


def table_keys(world, name):
    if name == "unit_data":
        return ["postal_code", "geographic_unit_fips"]
    if name == "nat_sum_data":
        return ["estimand"]
    inv = {v: k for k, v in R.TABLE_NAME.items()}
    return R.aggregate_keys(world["office"], inv[name])


def same_value(a, b):
    """Bit-for-bit identity of two cells (NaN equals NaN; 0.0 and -0.0 differ only if their bits differ)."""
    if isinstance(a, float) or isinstance(b, float) or isinstance(a, (np.floating,)) or isinstance(b, (np.floating,)):
        try:
            fa, fb = float(a), float(b)
        except (TypeError, ValueError):
            return a == b
        if math.isnan(fa) and math.isnan(fb):
            return True
        return fa == fb and math.copysign(1.0, fa) == math.copysign(1.0, fb)
    if a is None and b is None:
        return True
    try:
        if a != a and b != b:  # pandas NA / NaN objects
            return True
    except (TypeError, ValueError):
        pass
    return a == b


def index_rows(df, keys):
    out = {}
    for r in df.to_dict("records"):
        out[tuple(r.get(k) for k in keys)] = r
    return out


def diff_rows(ra, rb, cols, rel=None):
    """Columns whose cells differ.  rel=None: bit-for-bit.  rel=x: floats may differ by a relative x (used only for
    the bootstrap estimator, whose float outputs go through BLAS products whose summation order depends on the
    number of groups -- a last-bit difference there is not a change of the estimate)."""
    out = []
    for c in cols:
        a, b = ra.get(c), rb.get(c)
        if same_value(a, b):
            continue
        if rel is not None:
            try:
                fa, fb = float(a), float(b)
                if abs(fa - fb) <= rel * max(abs(fa), abs(fb), 1e-300) or abs(fa - fb) <= 1e-12:
                    continue
            except (TypeError, ValueError):
                pass
        out.append(c)
    return out



def make_knife_edge_contest(spec, ops, cut, contest, target_margin):
    """Turns one contest into a knife-edge: every unit of it has reported in full at time `cut` and the contest's counted
    normalised margin is (as close as whole votes allow to) `target_margin`.  Mutates world truth; returns the new op list."""
    from nightsim.night import feed_row

    world = spec["world"]
    mem = [b for b in world["baseline"] if (f"{b['postal_code']}_{b['district']}" if world["district_election"] else b["postal_code"]) == contest]
    tot_two = sum(world["truth"][b["geographic_unit_fips"]]["dem"] + world["truth"][b["geographic_unit_fips"]]["gop"] for b in mem)
    cur = sum(world["truth"][b["geographic_unit_fips"]]["dem"] - world["truth"][b["geographic_unit_fips"]]["gop"] for b in mem)
    if target_margin == 0 and tot_two % 2 == 1 and mem:
        t0 = world["truth"][mem[0]["geographic_unit_fips"]]
        t0["gop"] += 1
        t0["turnout"] = max(t0["turnout"], t0["dem"] + t0["gop"])
        tot_two += 1
        cur -= 1
    shift = int(round((target_margin * tot_two - cur) / 2.0))  # move `shift` votes from gop to dem (keeps two-party totals)
    for b in sorted(mem, key=lambda b: -(world["truth"][b["geographic_unit_fips"]]["dem"] + world["truth"][b["geographic_unit_fips"]]["gop"])):
        t = world["truth"][b["geographic_unit_fips"]]
        mv = max(-t["dem"], min(t["gop"], shift))
        t["dem"] += mv
        t["gop"] -= mv
        shift -= mv
        if shift == 0:
            break
    ids = {b["geographic_unit_fips"] for b in mem}
    ops = [o for o in ops if o.get("u") not in ids]
    for b in mem:
        t = world["truth"][b["geographic_unit_fips"]]
        ops.append(dict(t=round(cut, 3), k="deliver", u=b["geographic_unit_fips"], ver=99,
                        row=feed_row(b, dict(pev=100, dem=t["dem"], gop=t["gop"], turnout=max(t["turnout"], t["dem"] + t["gop"])))))
    mp = spec["profile"]["model_parameters"]
    mp["turnout_factor_lower"], mp["turnout_factor_upper"] = 0.01, 100.0
    mp.pop("unit_blocklist", None)
    mp.pop("postal_code_blocklist", None)
    return ops



def make_live_frame_night(spec):
    """The runner keeps ONE live feed frame for the whole night: every baseline unit has a row from the start (zeros until
    its first delivery), deliveries overwrite rows in place, and every poll passes the same DataFrame object again."""
    from nightsim.night import feed_row

    zero = [dict(t=0.0, k="deliver", u=b["geographic_unit_fips"], ver=-1, row=feed_row(b, dict(pev=0, dem=0, gop=0, turnout=0))) for b in spec["world"]["baseline"]]
    spec["ops"] = zero + spec["ops"]
    for o in spec["ops"]:
        if o["k"] == "poll":
            o["inplace_feed"] = True
    spec["live_frame"] = True
    return spec
