"""C02 -- every aggregate equals the sum of its units; levels agree with each other; interval columns sit on
the row of the group they were computed for.  State invariant after every poll; oracle R2 over the unit table."""
import math

from checks import common as C
from nightsim import refmodels as R
from nightsim.profile import profile_signature
from nightsim.world import world_signature

PROP = "C02"
PROP_NO = 2
LEVEL = "exploration"
RULE = ("one evaluation = one completed poll with the unit table requested; distinct = distinct abstract state (estimator, "
        "request set, world shape, group-structure flags); non-trivial = at least one aggregate group mixes nonreporting "
        "units with reporting / foreign / non-modelled units, so that the sum identity has more than one term")
ASSUMPTIONS = [
    "unit ids unique; outlier flags opaque (as C01)",
    "gaussian estimator: point-prediction identity only (its interval placement is re-derived in C15)",
    "bootstrap identities are checked on runs without race calls (the statement says 'before any race-call adjustment'); relative tolerance 1e-9",
]
REAL, STUBBED = C.REAL, C.STUBBED


def budget(tier):
    return dict(nights=250, wall_s=240) if tier == "quick" else dict(nights=4000, wall_s=1700)


WORLD = dict(offices=["G", "S", "H", "H"], unit_types=["precinct", "precinct", "county"], n_states=(1, 3), n_counties=(2, 7),
             n_units=(2, 7), zero_baseline_frac=0.04)
PROFILE = dict(estimators=["nonparametric", "nonparametric", "gaussian", "bootstrap"], B=(2, 30), always_unit=True,
               always_state=True)
FEED = dict(p_loss=0.05, n_foreign=(0, 3), max_polls=3, poll_every=(40.0, 160.0), start_polls_after=170.0,
            surge_frac=0.03, boundary_frac=0.05)


def make_spec(st, idx, tier):
    spec = C.state_spec(st, tier, WORLD, PROFILE, FEED, min_units=30)
    C.arrival_polls(st, spec)
    return spec


def order_mismatch(keys_list):
    """The bootstrap model orders indicator columns by the '_'-joined key string, tables by key tuple."""
    a = sorted(keys_list)
    b = sorted(keys_list, key=lambda k: "_".join(map(str, k)))
    return a != b


def check_sums(chk, world, rec, units, flagged, stats):
    p = rec.profile
    est = p["estimands"]
    pi = p["pi_method"]
    alphas = p["prediction_intervals"]
    out = []
    ud = rec.tables.get("unit_data")
    if ud is None:
        return out
    utab, _ = C.unit_rows(ud)
    if set(utab) != set(units):
        return out  # C01's business
    nontrivial = False
    for agg in p["aggregates"]:
        if agg == "unit":
            continue
        name = R.TABLE_NAME[agg]
        df = rec.tables.get(name)
        if df is None:
            continue
        keys, groups, _ = R.ledger(world, units, agg, est, flagged)
        if any(k not in df.columns for k in keys):
            continue
        rows = {tuple(r[k] for k in keys): r for r in df.to_dict("records")}
        if set(rows) != set(groups) or len(rows) != len(df):
            continue  # C01's business
        mism = order_mismatch(list(groups)) if len(keys) > 1 else False
        if mism:
            stats.probes["level_with_key_prefix_pair"] += 1
        for g, L in groups.items():
            r = rows[g]
            if L["nonreporting"] and (L["reporting"] or L["other"]):
                nontrivial = True
            if L["nonreporting"]:
                stats.probes["group_with_nonreporting_units"] += 1
            has_nm = any(not units[f]["foreign"] for f in L["other"])
            if pi != "bootstrap":
                for e in est:
                    base = sum(R.counted(units[f], e) for f in L["reporting"] + L["other"])
                    cols = [f"pred_{e}"]
                    if pi == "nonparametric":
                        for a in alphas:
                            cols += [f"lower_{a}_{e}", f"upper_{a}_{e}"]
                    for col in cols:
                        want = float(base) + sum(C.fnum(utab[f][col]) for f in L["nonreporting"])
                        got = C.fnum(r[col])
                        if got != want:
                            out.append(chk.v("group_sum", f"{name}{g}: {col}={got} but counted + unit predictions sum to {want}",
                                             level=agg, column=col.split("_")[0], estimator=pi))
            else:
                members = L["reporting"] + L["nonreporting"] + L["other"]
                want_t = sum(C.fnum(utab[f]["pred_turnout"]) for f in members)
                got_t = C.fnum(r["pred_turnout"])
                is_class = "county_classification" in keys
                # the code counts non-modelled baseline units (whose classification is known) into the turnout of
                # classification groups but not into their margin: recorded with its own flags (known finding)
                nm_in_class = [f for f, u in units.items() if is_class and u["category"] != "expected" and not u["foreign"]
                               and tuple(u[k] for k in keys) == g]
                if not C.close(got_t, want_t, rel=1e-9, abs_=1e-6):
                    out.append(chk.v("bootstrap_turnout_sum", f"{name}{g}: pred_turnout={got_t} but the units' predicted turnout sums to {want_t}",
                                     level=agg, order_mismatch=mism, group_has_nonmodelled=bool(nm_in_class)))
                    continue
                want_m = sum(C.fnum(utab[f]["pred_margin"]) for f in members)
                got_m = C.fnum(r["pred_margin"]) * got_t
                if not C.close(got_m, want_m, rel=1e-9, abs_=1e-6):
                    out.append(chk.v("bootstrap_margin_sum", f"{name}{g}: pred_margin*pred_turnout={got_m} but the units' predicted margins sum to {want_m}",
                                     level=agg, order_mismatch=mism, group_has_nonmodelled=bool(nm_in_class)))
                for a in alphas:
                    lo, up, pm = C.fnum(r[f"lower_{a}_margin"]), C.fnum(r[f"upper_{a}_margin"]), C.fnum(r["pred_margin"])
                    if not (lo <= pm <= up):
                        out.append(chk.v("interval_not_on_own_row", f"{name}{g}: interval [{lo}, {up}] at level {a} does not contain the group's own prediction {pm}",
                                         level=agg, order_mismatch=mism, group_has_nonmodelled=bool(nm_in_class)))
    # cross-level agreement (exact integers): county and district tables sum to the state table
    if pi != "bootstrap" and "postal_code" in p["aggregates"]:
        skeys = R.aggregate_keys(world["office"], "postal_code")
        sdf = rec.tables.get("state_data")
        for agg in ("county_fips", "district"):
            if agg not in p["aggregates"] or sdf is None:
                continue
            df = rec.tables.get(R.TABLE_NAME[agg])
            if df is None or any(k not in df.columns for k in skeys) or any(k not in sdf.columns for k in skeys):
                continue
            stats.probes["cross_level_sum_checked"] += 1
            cols = [c for c in sdf.columns if c.split("_")[0] in ("pred", "results") or (pi == "nonparametric" and c.split("_")[0] in ("lower", "upper"))]
            cols = [c for c in cols if c in df.columns] + ["reporting"]
            child = df.groupby(skeys)[cols].sum().reset_index()
            crow = {tuple(r[k] for k in skeys): r for r in child.to_dict("records")}
            for r in sdf.to_dict("records"):
                g = tuple(r[k] for k in skeys)
                if g not in crow:
                    out.append(chk.v("levels_disagree", f"{R.TABLE_NAME[agg]} has no rows for state-level group {g}", level=agg))
                    continue
                for c in cols:
                    if C.fnum(crow[g][c]) != C.fnum(r[c]):
                        out.append(chk.v("levels_disagree", f"{R.TABLE_NAME[agg]} sums to {crow[g][c]} for {c} of {g}, the state table says {r[c]}",
                                         level=agg, column=c.split("_")[0]))
    return out, nontrivial


class Checker(C.BaseChecker):
    PROP = PROP

    def after_poll(self, ex, op, rec):
        st = ex.stats
        if not ex.table.unique_ids() or not rec.ok:
            return []
        units, info = R.categorise(ex.world, rec.rows, rec.profile)
        utab, _ = C.unit_rows(rec.tables["unit_data"]) if "unit_data" in rec.tables else ({}, [])
        flagged = C.flagged_by_outlier_model(utab)
        st.evaluations += 1
        res = check_sums(self, ex.world, rec, units, flagged, st)
        if not res:
            return []
        vs, nontrivial = res
        n_nm = sum(1 for u in units.values() if u["category"] != "expected")
        sig = (profile_signature(rec.profile), world_signature(ex.world), min(3, info["n_foreign"]), min(3, n_nm), nontrivial)
        st.state(sig, nontrivial)
        st.probes["estimator:" + rec.profile["pi_method"]] += 1
        return vs


def checker(spec):
    return Checker(spec)


def summarise(ex, stats):
    stats.sim_minutes = ex.spec.get("feed_stats", {}).get("sim_minutes", 0.0)
    stats.sample = C.sample_of(ex.spec)
