"""C10 -- outstanding and excluded units cannot influence anyone else's estimate.

Transition check: probe polls immediately before and after one delivery that changes the counts of a single unit
that is below the reporting threshold (staying below), blocklisted, zero-baseline or foreign.  Second clause
(historical evaluation): HistoricalModelClient against the sim bucket; perturbing the stored historical results of a
unit that is not yet reporting leaves every estimate table identical."""
import copy
import io
import json
import math

import pandas as pd

from checks import common as C
from nightsim import refmodels as R
from nightsim import seams
from nightsim.framework import Violation
from nightsim.night import foreign_unit
from nightsim.profile import profile_signature
from nightsim.streams import chance, choice
from nightsim.world import world_signature

PROP = "C10"
PROP_NO = 10
LEVEL = "exploration"
RULE = ("one evaluation = one before/after pair of polls around a single delivery that changes only the counts of one "
        "outstanding / excluded unit (or one historical-evaluation pair with a perturbed stored result); distinct = distinct "
        "(estimator, kind of perturbed unit, aggregate set, office, direction of change); non-trivial = the 'before' poll produced "
        "estimates and the perturbed unit's counts really changed")
ASSUMPTIONS = [
    "outlier-detection models are on in about a third of the nights (a defect found with them on -- excluded units took part in the detector's fit -- is repaired, see known_findings.json)",
    "bootstrap float cells are compared to 1e-9 relative (BLAS summation order), integer-valued cells and conformal estimators bit-for-bit",
    "historical clause: config and preprocessed data are served by the sim bucket (get_object); one historical election",
]
REAL, STUBBED = C.REAL, C.STUBBED


def budget(tier):
    return dict(nights=350, wall_s=240) if tier == "quick" else dict(nights=4000, wall_s=1700)


WORLD = dict(offices=["G", "S", "H"], unit_types=["precinct", "precinct", "county"], n_states=(1, 3), n_counties=(2, 8),
             n_units=(2, 10), zero_baseline_frac=0.05)
PROFILE = dict(estimators=["nonparametric", "gaussian", "gaussian", "bootstrap"], B=(2, 20), winsorize_p=0.0, outlier_models_p=0.35,
               blocklist_p=0.5, thresholds=[100, 90, 60, 100])
FEED = dict(p_loss=0.03, n_foreign=(0, 2), max_polls=0, surge_frac=0.02, boundary_frac=0.03, versions=(2, 5))


def make_spec(st, idx, tier):
    if idx % 7 == 6:
        return make_historical_spec(st, idx, tier)
    spec = C.state_spec(st, tier, WORLD, PROFILE, FEED, min_units=30)
    ops = spec["ops"]
    world, profile = spec["world"], spec["profile"]
    cut = float(st.sched.uniform(220, 470))
    pre = [o for o in ops if o["t"] <= cut]
    # state of the table at the cut
    rows = {}
    for o in pre:
        if o["k"] in ("deliver", "foreign"):
            rows[o["u"]] = o["row"]
        elif o["k"] == "rescale" and o["u"] in rows:
            rows[o["u"]] = dict(rows[o["u"]], percent_expected_vote=o["pev"])
    units, _ = R.categorise(world, list(rows.values()), profile)
    cands = []
    for f, u in sorted(units.items()):
        if f not in rows:
            continue
        if u["category"] == "expected" and not u["reporting"]:
            cands.append((f, "nonreporting"))
        elif u["category"] == "non-modeled: blocklisted":
            cands.append((f, "blocklisted"))
        elif u["category"] == "non-modeled: zero baseline":
            cands.append((f, "zero_baseline"))
        elif u["category"] == "unexpected":
            cands.append((f, "foreign"))
    kinds = sorted({k for _, k in cands})
    out = list(pre)
    if idx % 8 == 3:
        g = outlier_gate_ops(st, spec, rows, units, cut)
        if g is not None:
            spec["ops"] = out + g
            spec["outlier_gate_night"] = True
            return spec
    if kinds:
        kind = choice(st.shadow, kinds)
        f = choice(st.shadow, [c for c, k in cands if k == kind])
        u = units[f]
        old = rows[f]
        new = dict(old)
        if chance(st.shadow, 0.4):
            # a surge: the unit's count jumps far above anything the model predicts for its whole group (so that floor
            # terms bind wherever the count is -- rightly or wrongly -- used)
            big = int(max(u["baseline_weights"] or 0, 500) * float(st.shadow.uniform(8, 80)))
            new["results_dem"] = int(big * float(st.shadow.uniform(0.2, 0.7)))
            new["results_gop"] = int(big * 0.3)
        else:
            scale = float(st.shadow.uniform(0.0, 3.0))
            new["results_dem"] = int(round(old["results_dem"] * scale + st.shadow.integers(0, 50)))
            new["results_gop"] = int(round(old["results_gop"] * float(st.shadow.uniform(0.0, 3.0)) + st.shadow.integers(0, 50)))
        new["results_turnout"] = new["results_dem"] + new["results_gop"] + int(st.shadow.integers(0, 30))
        if kind != "nonreporting" and chance(st.shadow, 0.3):
            # an excluded unit stays excluded wherever its expected-vote share stands: let it cross the reporting threshold too
            thr = profile["threshold"]
            new["percent_expected_vote"] = int(st.shadow.integers(0, max(1, thr))) if old["percent_expected_vote"] >= thr else choice(st.shadow, [thr, 100])
        out.append(dict(t=round(cut, 3), k="poll", role="before"))
        out.append(dict(t=round(cut, 3), k="set_row", u=f, row=new, kind=kind))
        out.append(dict(t=round(cut, 3), k="poll", role="after"))
    spec["ops"] = out
    return spec


N_MIN_OUTLIER = 20  # the detector is fitted only on more than this many units (CombinedDataHandler.n_minimum_for_outlier_detection_model)


def outlier_gate_ops(st, spec, rows, units, cut):
    """Fault placement at a boundary: outlier models on, the number of units eligible for the detector at or just below its
    minimum, and excluded (blocklisted) units whose crossing of the reporting threshold moves the number of units *at or above
    the threshold* across that minimum.  Only the excluded unit changes, so nobody else's estimate may."""
    rng = st.shadow
    profile = spec["profile"]
    mp = profile["model_parameters"]
    thr = profile["threshold"]
    if thr < 2:
        return None
    at = {f: u for f, u in units.items() if not u["foreign"] and f in rows and u["at_threshold"]}
    cand = sorted(f for f, u in at.items() if u["candidate"])
    blocked = sorted(f for f, u in at.items() if u["category"] == "non-modeled: blocklisted")
    o_fixed = len(at) - len(cand) - len(blocked)  # zero-baseline / out-of-range units at the threshold: left as they are
    e = min(int(rng.integers(12, N_MIN_OUTLIER + 1)), N_MIN_OUTLIER - o_fixed, len(cand) - 1)
    if e < 8 or len(at) < N_MIN_OUTLIER + 1:
        return None
    perm = [cand[int(i)] for i in rng.permutation(len(cand))]
    new_blocked = sorted(perm[e:])
    mp["unit_blocklist"] = sorted(set(mp.get("unit_blocklist", [])) | set(new_blocked))
    mp["outlier_z_threshold"] = round(float(rng.uniform(0.1, 1.2)), 3)
    mp["fit_turnout_outlier_model"] = True
    mp["fit_margin_outlier_model"] = bool(chance(rng, 0.5))
    lowerable = blocked + new_blocked
    up = bool(chance(rng, 0.5))  # direction of the crossing
    n_before = N_MIN_OUTLIER if up else N_MIN_OUTLIER + 1
    n_lower = len(at) - n_before
    if n_lower < (1 if up else 0) or n_lower > len(lowerable) - (0 if up else 1):
        return None
    pick = [lowerable[int(i)] for i in rng.permutation(len(lowerable))]
    ops = []
    t = round(cut, 3)
    for f in pick[:n_lower]:
        ops.append(dict(t=t, k="set_row", u=f, row=dict(rows[f], percent_expected_vote=int(rng.integers(0, thr))), kind="blocklisted"))
    f = pick[0] if up else pick[n_lower]
    old = rows[f]
    new = dict(old, results_dem=int(old["results_dem"] * float(rng.uniform(0.5, 2.0))) + int(rng.integers(0, 40)),
               percent_expected_vote=(100 if chance(rng, 0.5) else thr) if up else int(rng.integers(0, thr)))
    new["results_turnout"] = new["results_dem"] + new["results_gop"] + int(rng.integers(0, 30))
    ops.append(dict(t=t, k="poll", role="before"))
    ops.append(dict(t=t, k="set_row", u=f, row=new, kind="blocklisted"))
    ops.append(dict(t=t, k="poll", role="after"))
    return ops


class Checker(C.BaseChecker):
    PROP = PROP

    def __init__(self, spec):
        super().__init__(spec)
        self.before = None

    def after_poll(self, ex, op, rec):
        if op.get("role") == "before":
            self.before = rec
            return []
        if op.get("role") != "after" or self.before is None:
            return []
        bef, aft = self.before, rec
        self.before = None
        st = ex.stats
        if not ex.table.unique_ids():
            return []
        p = aft.profile
        pop = ex.spec["ops"][ex.op_index - 1]
        uid, kind = pop["u"], pop.get("kind")
        st.evaluations += 1
        out = []
        if bef.ok != aft.ok or bef.exc_type != aft.exc_type:
            out.append(self.v("outcome_changed", f"changing the counts of {kind} unit {uid} turned outcome {bef.exc_type or 'estimates'} into {aft.exc_type or 'estimates'}: {aft.exc_msg}",
                              estimator=p["pi_method"], kind=kind))
            return out
        if not bef.ok:
            st.state(("too_few", p["pi_method"], kind), False)
            return out
        units, _ = R.categorise(ex.world, aft.rows, p)
        u = units[uid]
        pi = p["pi_method"]
        rel = 1e-9 if pi == "bootstrap" else None
        for name in sorted(set(bef.tables) | set(aft.tables)):
            if name not in bef.tables or name not in aft.tables:
                out.append(self.v("table_set_changed", f"table {name} present only on one side"))
                continue
            A, B = bef.tables[name], aft.tables[name]
            if list(A.columns) != list(B.columns):
                out.append(self.v("columns_changed", f"{name}: columns changed"))
                continue
            keys = C.table_keys(ex.world, name)
            ia, ib = C.index_rows(A, keys), C.index_rows(B, keys)
            cols = list(A.columns)
            if set(ia) != set(ib):
                out.append(self.v("row_set_changed", f"{name}: rows changed: {sorted(set(ia) ^ set(ib), key=str)[:3]}", table=name, kind=kind))
                continue
            if name == "unit_data":
                own = {(u["postal_code"], uid)}
            else:
                own = set()
                if not ("county_classification" in keys and u["category"] != "expected"):
                    gk = tuple(u[k] for k in keys)
                    if not any(x is None for x in gk):
                        own = {gk}
            for k in sorted(ia, key=str):
                if k in own:
                    if name != "unit_data" and C.fnum(ia[k]["reporting"]) != C.fnum(ib[k]["reporting"]):
                        out.append(self.v("own_group_reporting_changed", f"{name}{k}: reporting changed", kind=kind))
                    continue
                d = C.diff_rows(ia[k], ib[k], cols, rel=rel)
                if d:
                    out.append(self.v("influence", f"{name}{k}: {d[:4]} changed ({ia[k][d[0]]} -> {ib[k][d[0]]}) when only the counts of {kind} unit {uid} changed",
                                      estimator=pi, kind=kind, table=("unit_data" if name == "unit_data" else "aggregate"), column=d[0].split("_")[0]))
                    break
        st.probes["perturbed:" + str(kind)] += 1
        if ex.spec.get("outlier_gate_night"):
            st.probes["excluded_unit_crosses_threshold_at_outlier_detector_minimum"] += 1
            if any(C.flagged_by_outlier_model(C.unit_rows(t["unit_data"])[0]) for t in (bef.tables, aft.tables) if "unit_data" in t):
                st.probes["outlier_gate_night_with_flagged_units"] += 1
        st.probes["estimator:" + pi] += 1
        changed = True
        st.state((pi, kind, tuple(sorted(p["aggregates"])), ex.world["office"], p["handle_unreporting"], p["threshold"]), changed)
        return out


def checker(spec):
    return Checker(spec) if spec.get("kind") != "historical" else None


# ------------------------------------------------------------------ historical clause


def make_historical_spec(st, idx, tier):
    from nightsim.world import make_world

    wk = dict(WORLD, offices=["G", "S"], unit_types=["precinct", "county"], zero_baseline_frac=0.0, n_counties=(3, 7), n_units=(3, 7))
    for _ in range(20):
        world = make_world(st.world, wk)
        if len(world["baseline"]) >= 30:
            break
    rng = st.shadow
    pi = choice(rng, ["nonparametric", "gaussian"])
    est = [choice(rng, ["dem", "gop", "turnout"])]
    thr = choice(rng, [100, 90, 60])
    # the live feed of the *current* election: which units are reporting now
    live = []
    for b in world["baseline"]:
        rep = chance(rng, 0.6)
        pev = thr if (rep and chance(rng, 0.3)) else (100 if rep else int(rng.integers(0, thr)))
        t = world["truth"][b["geographic_unit_fips"]]
        live.append(dict(postal_code=b["postal_code"], geographic_unit_fips=b["geographic_unit_fips"], percent_expected_vote=int(pev),
                         results_dem=t["dem"], results_gop=t["gop"], results_turnout=t["turnout"]))
    # stored historical election: baseline columns + historical results (a second draw of the truth)
    hist = []
    for b in world["baseline"]:
        f = float(rng.uniform(0.7, 1.4))
        hist.append(dict(b, results_dem=int(b["baseline_dem"] * f) + int(rng.integers(0, 20)),
                         results_gop=int(b["baseline_gop"] * float(rng.uniform(0.7, 1.4))) + int(rng.integers(0, 20))))
        hist[-1]["results_turnout"] = hist[-1]["results_dem"] + hist[-1]["results_gop"] + int(rng.integers(0, 30))
    # some of today's units did not exist in the historical election (no row in its preprocessed data)
    gone = {r["geographic_unit_fips"] for r in hist if chance(rng, 0.1)}
    if len(gone) < len(hist) - 12:
        hist = [r for r in hist if r["geographic_unit_fips"] not in gone]
    else:
        gone = set()
    nonrep = [r["geographic_unit_fips"] for r in live if r["percent_expected_vote"] < thr and r["geographic_unit_fips"] not in gone]
    victim = choice(rng, nonrep) if nonrep else None
    aggs = ["postal_code"] + (["county_fips"] if chance(rng, 0.5) else [])
    return dict(kind="historical", world=world, live=live, hist=hist, victim=victim, ops=[],
                profile=dict(pi_method=pi, estimands=est, prediction_intervals=[0.7, 0.9], threshold=thr, aggregates=aggs,
                             features=(["x1"] if chance(rng, 0.5) else []), model_parameters=dict(fit_margin_outlier_model=False, fit_turnout_outlier_model=False)),
                bump=dict(dem=int(rng.integers(1, 5000)), gop=int(rng.integers(1, 5000))))


HIST_ID = "2018-11-06_USA_G"


def historical_evaluation(spec, hist, profile=None):
    """One HistoricalModelClient run against a fresh sim bucket holding the configs and the historical election's
    preprocessed data `hist`.  Returns (outcome string, {table name: frame})."""
    from elexmodel.client import HistoricalModelClient
    from nightsim.runner import FEED_COLS

    world, p = spec["world"], (profile or spec["profile"])
    eid, hid = world["election_id"], HIST_ID
    cfg = copy.deepcopy(world["config"])
    cfg[eid][0]["historical_election"] = [hid]
    hcfg = {hid: copy.deepcopy(cfg[eid])}
    bucket = seams.STORAGE.new_night()
    seams.set_app_env("local")
    root = "elex-models-dev"
    bucket.seed_object(f"{root}/{eid}/config/{eid}.json", json.dumps(cfg))
    bucket.seed_object(f"{root}/{hid}/config/{hid}.json", json.dumps(hcfg))
    hdf = pd.DataFrame(hist)
    bucket.seed_object(f"{root}/{hid}/data/{world['office']}/data_{world['unit_type']}.csv", hdf.to_csv(index=False))
    cur = pd.DataFrame(spec["live"])[FEED_COLS]
    cur["geographic_unit_fips"] = cur["geographic_unit_fips"].astype(str)
    client = HistoricalModelClient()
    try:
        res = client.get_historical_evaluation(cur, eid, world["office"], list(p["estimands"]), list(p["prediction_intervals"]),
                                               p["threshold"], world["unit_type"], pi_method=p["pi_method"], aggregates=list(p["aggregates"]),
                                               features=list(p["features"]), model_parameters=copy.deepcopy(p["model_parameters"]), save_output=[])
        est = res[hid]["estimates"]
        return "ok", {k: v.copy() for k, v in est.items()}
    except Exception as e:  # noqa: BLE001
        return f"{type(e).__module__}.{type(e).__qualname__}: {e}", {}


def run_historical(spec, stats):
    world, p = spec["world"], spec["profile"]
    outs = []
    for variant in ("base", "perturbed"):
        hist = copy.deepcopy(spec["hist"])
        if variant == "perturbed" and spec["victim"] is not None:
            for r in hist:
                if r["geographic_unit_fips"] == spec["victim"]:
                    r["results_dem"] += spec["bump"]["dem"]
                    r["results_gop"] += spec["bump"]["gop"]
                    r["results_turnout"] += spec["bump"]["dem"] + spec["bump"]["gop"]
        outs.append(historical_evaluation(spec, hist))
    stats.polls += 2
    stats.evaluations += 1
    out = []
    (o1, t1), (o2, t2) = outs
    if o1 == "ok":
        stats.polls_ok += 2 if o2 == "ok" else 1
    else:
        stats.repo_errors[o1.split(":")[0]] += 1
    if o1 != o2 and not (o1 != "ok" and o2 != "ok" and o1.split(":")[0] == o2.split(":")[0]):
        out.append(Violation(PROP, "historical_outcome_changed", f"perturbing the hidden historical result of {spec['victim']} changed the outcome: {o1} -> {o2}"))
    elif o1 == "ok":
        for name in sorted(t1):
            keys = C.table_keys(world, name)
            ia, ib = C.index_rows(t1[name], keys), C.index_rows(t2[name], keys)
            for k in sorted(ia, key=str):
                d = C.diff_rows(ia[k], ib.get(k, {}), list(t1[name].columns))
                if d:
                    out.append(Violation(PROP, "historical_influence", f"{name}{k}: {d[:3]} changed when the stored historical result of not-yet-reporting unit {spec['victim']} was perturbed",
                                         dict(estimator=p["pi_method"], table=name)))
                    break
    stats.probes["historical_pair"] += 1
    stats.state(("historical", p["pi_method"], p["threshold"], tuple(p["aggregates"]), bool(p["features"])), o1 == "ok" and spec["victim"] is not None)
    stats.sample = dict(kind="historical", night_seed=spec.get("night_seed"), units=len(world["baseline"]), victim=spec["victim"], bump=spec["bump"], profile=p)
    return out, "hist"


def run_custom(spec, stats):
    from nightsim.framework import NightExec

    if spec.get("kind") == "historical":
        return run_historical(spec, stats)
    ex = NightExec(spec, Checker(spec), stats)
    vs = ex.run()
    summarise(ex, stats)
    return vs, ex.digest()


def summarise(ex, stats):
    stats.sim_minutes = ex.spec.get("feed_stats", {}).get("sim_minutes", 0.0)
    stats.sample = C.sample_of(ex.spec, max_ops=5) | dict(last_ops=[{k: v for k, v in o.items() if k in ("t", "k", "u", "role", "row", "kind")} for o in ex.spec["ops"][-3:]])
