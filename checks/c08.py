"""C08 -- the national summary is bounded, ordered, and depends only on the contests.

History check on one client: the sequence of aggregate computations that precedes the summary call varies (orders,
extra finer levels); the summary must not change and must not fail.  Static part: ordering, bounds, prediction
formula, called contests carry no uncertainty, wrong-size weights rejected."""
import math

from checks import common as C
from checks.c06 import contests_of
from nightsim import refmodels as R
from nightsim.streams import chance, choice

PROP = "C08"
PROP_NO = 8
LEVEL = "exploration"
RULE = ("one evaluation = one national-summary call after a bootstrap poll (reference order or a variant order / extra levels), or "
        "one wrong-size weight call; distinct = distinct (office, number of contests, threshold mode, correlation mode, weights given, "
        "aggregate order variant, calls/stops pattern, B bucket); non-trivial = >= 2 contests and at least one uncalled contest whose "
        "interval straddles zero (so that the bounds are not all equal to the prediction)")
ASSUMPTIONS = [
    "contests that are both called and stop-listed are exempt from the 'no uncertainty' clause (the code lets the stop win; the statement is silent)",
    "hard-threshold formula checks apply to agg_model_hard_threshold=True only; ordering lower <= pred <= upper applies to both modes",
    "<= 4 contests (states) or <= 12 (state-district)",
    "district offices: 'district' is part of every request (it is the contest level itself, not a finer aggregate); variants add / reorder counties, classifications and the unit table",
]
REAL, STUBBED = C.REAL, C.STUBBED


def budget(tier):
    return dict(nights=140, wall_s=240) if tier == "quick" else dict(nights=1800, wall_s=1700)


WORLD = dict(offices=["G", "S", "H"], unit_types=["precinct", "precinct", "county"], n_states=(2, 4), n_counties=(2, 5),
             n_units=(2, 6), zero_baseline_frac=0.02)
PROFILE = dict(estimators=["bootstrap"], n_alphas=(1, 2), alpha_range=(0.3, 0.99), B=(2, 40), fixed_effects_p=0.1, blocklist_p=0.1)
FEED = dict(p_loss=0.03, n_foreign=(0, 1), max_polls=0)


def make_spec(st, idx, tier):
    spec = C.state_spec(st, tier, WORLD, PROFILE, FEED, min_units=36)
    p = spec["profile"]
    world = spec["world"]
    rng = st.operator
    sub = world["config"][world["election_id"]][0]
    finer = [a for a in sub["aggregates"] if a not in ("postal_code", "district")]
    # for district offices the contest level is postal_code+district: 'district' is always requested, so that the
    # set of contests (which a foreign unit can extend through its id) is the same in every variant
    base_aggs = ["postal_code"] + (["district"] if world["district_election"] else []) + [a for a in finer if chance(rng, 0.4)]
    p["aggregates"] = base_aggs
    if chance(rng, 0.6):
        p["model_parameters"]["B"] = int(choice(rng, [2, 3, 4, 5, 8]))
    cs = contests_of(world)
    if chance(rng, 0.5):
        for c in cs:
            r = rng.random()
            if r < 0.2:
                p["lhs_called_contests"].append(c)
            elif r < 0.4:
                p["rhs_called_contests"].append(c)
            if rng.random() < 0.2:
                p["stop_model_call"].append(c)
    weights = None
    if chance(rng, 0.7):
        weights = {c: int(rng.integers(1, 40)) for c in cs}
    ns = dict(weights=weights, base=int(choice(rng, [0, 0, 3, 35, 100])), alphas=sorted({float(choice(rng, [0.5, 0.7, 0.9, 0.95, 0.99])) for _ in range(2)}))
    cut = float(st.sched.uniform(250, 480))
    ops = [o for o in spec["ops"] if o["t"] <= cut]
    if chance(rng, 0.3):
        # an exact tie: a fully reported contest whose counted margin is exactly zero (neither side has it)
        tie = choice(rng, cs)
        ops = C.make_knife_edge_contest(spec, ops, cut, tie, 0.0)
        for lst in ("lhs_called_contests", "rhs_called_contests", "stop_model_call"):
            p[lst] = [c for c in p[lst] if c != tie]
        spec["tie_contest"] = tie
    seq = [dict(k="poll", role="reference", fresh_client=True, national_summary=ns)]
    for _ in range(2 if tier == "quick" else 3):
        extra = [a for a in finer if chance(rng, 0.6)]
        aggs = list(dict.fromkeys(base_aggs + extra))
        perm = rng.permutation(len(aggs))
        aggs = [aggs[int(i)] for i in perm]
        seq.append(dict(k="poll", role="variant", fresh_client=bool(chance(rng, 0.5)), national_summary=ns, override=dict(aggregates=aggs)))
    if weights is not None and len(cs) > 1 and chance(rng, 0.5):
        w2 = dict(weights)
        if chance(rng, 0.5):
            w2.pop(sorted(w2)[0])
        else:
            w2["QQ"] = 3
        seq.append(dict(k="poll", role="wrong_size", fresh_client=True, national_summary=dict(ns, weights=w2)))
    for i, o in enumerate(seq):
        o["t"] = round(cut + 0.001 * (i + 1), 4)
    spec["ops"] = ops + seq
    return spec


class Checker(C.BaseChecker):
    PROP = PROP

    def __init__(self, spec):
        super().__init__(spec)
        self.ref = None

    def static(self, ex, op, rec, st):
        p = rec.profile
        ns = op["national_summary"]
        out = []
        row = rec.nat_sum.to_dict("records")[0]
        pred = C.fnum(row["agg_pred"])
        sd = rec.tables["state_data"]
        keys = R.aggregate_keys(ex.world["office"], "postal_code")
        contests = {}
        for r in sd.to_dict("records"):
            contests["_".join(str(r[k]) for k in keys)] = r
        names = sorted(contests)
        w = ns["weights"] if ns["weights"] is not None else {c: 1 for c in names}
        if set(w) != set(names):
            # the operator's dictionary does not name exactly the contests present (a contest without any feed row under the
            # drop policy, or one created by a foreign unit): the library matches weights by sorted position and cannot know;
            # only the ordering clause is meaningful then
            st.probes["weights_do_not_name_the_contests_present"] += 1
            out0 = []
            row0 = rec.nat_sum.to_dict("records")[0]
            for a in ns["alphas"]:
                if not (C.fnum(row0[f"lower_{a}"]) <= C.fnum(row0["agg_pred"]) <= C.fnum(row0[f"upper_{a}"])):
                    out0.append(self.v("not_ordered", f"national summary at level {a}: {row0}", correlation_mode=bool(rec.profile["model_parameters"].get("national_summary_correlation", True)),
                                       hard_threshold=bool(rec.profile["model_parameters"].get("agg_model_hard_threshold", True))))
            return out0, ("mismatched_weights", len(names)), False
        mp = p["model_parameters"]
        hard = mp.get("agg_model_hard_threshold", True)
        corr = mp.get("national_summary_correlation", True)
        lhs, rhs, stop = set(p["lhs_called_contests"]), set(p["rhs_called_contests"]), set(p["stop_model_call"])
        flags = dict(correlation_mode=bool(corr), hard_threshold=bool(hard))
        base = ns["base"]
        total = sum(w.values())
        straddle = 0
        for a in ns["alphas"]:
            lo, up = C.fnum(row[f"lower_{a}"]), C.fnum(row[f"upper_{a}"])
            if not (lo <= pred <= up):
                out.append(self.v("not_ordered", f"national summary at level {a}: lower={lo}, pred={pred}, upper={up} (B={mp.get('B', 500)})", **flags))
            if hard:
                if lo < base - 1e-9 or up > base + total + 1e-9:
                    out.append(self.v("out_of_bounds", f"national summary [{lo}, {up}] leaves [base, base + total weight] = [{base}, {base + total}]", **flags))
        if any(C.fnum(contests[c]["pred_margin"]) == 0 for c in names):
            st.probes["contest_with_margin_exactly_zero"] += 1
        if hard:
            want = base + sum(w[c] for c in names if C.fnum(contests[c]["pred_margin"]) > 0)
            if not C.close(pred, round(want, 2), rel=1e-12, abs_=1e-9):
                out.append(self.v("prediction_formula", f"summary prediction {pred} but base + weights of contests with positive reported margin = {want}", **flags))
            # called (and not stopped) contests contribute no uncertainty to either bound
            free_dem = sum(w[c] for c in names if not ((c in lhs or c in rhs) and c not in stop) and C.fnum(contests[c]["pred_margin"]) > 0)
            free_gop = sum(w[c] for c in names if not ((c in lhs or c in rhs) and c not in stop) and not C.fnum(contests[c]["pred_margin"]) > 0)
            for a in ns["alphas"]:
                lo, up = C.fnum(row[f"lower_{a}"]), C.fnum(row[f"upper_{a}"])
                if pred - lo > free_dem + 1e-9 or up - pred > free_gop + 1e-9:
                    out.append(self.v("called_contest_uncertain", f"level {a}: pred-lower={pred - lo} > weight of uncalled left-leaning contests {free_dem} or upper-pred={up - pred} > weight of uncalled right-leaning contests {free_gop}", **flags))
        for c in names:
            a0 = p["prediction_intervals"][0]
            if c not in lhs and c not in rhs and C.fnum(contests[c][f"lower_{a0}_margin"]) < 0 < C.fnum(contests[c][f"upper_{a0}_margin"]):
                straddle += 1
        return out, (len(names), bool(hard), bool(corr), ns["weights"] is not None, bool(lhs or rhs), bool(stop), min(mp.get("B", 500), 6)), len(names) >= 2 and straddle > 0

    def after_poll(self, ex, op, rec):
        st = ex.stats
        role = op.get("role")
        p = rec.profile
        if role == "wrong_size":
            st.evaluations += 1
            st.probes["wrong_size_weights"] += 1
            st.state(("wrong_size", ex.world["office"]), True)
            if self.ref is None or not self.ref.ok:
                return []
            if rec.ok:
                return [self.v("wrong_size_accepted", f"weight dictionary with {len(op['national_summary']['weights'])} entries accepted")]
            if rec.exc_type != "elexmodel.models.BootstrapElectionModel.BootstrapElectionModelException":
                return [self.v("wrong_size_wrong_error", f"wrong-size weights raised {rec.exc_type}: {rec.exc_msg}")]
            return []
        if role == "reference":
            self.ref = rec
        if role not in ("reference", "variant"):
            return []
        st.evaluations += 1
        ref = self.ref
        if ref is None:
            return []
        if role == "variant" and ref.ok and not rec.ok:
            last = [a for a in p["aggregates"] if a != "unit"][-1:]
            return [self.v("summary_failed", f"with aggregates {ref.profile['aggregates']} the summary worked, with {p['aggregates']} it failed: {rec.exc_type}: {rec.exc_msg}",
                           last_aggregate_is_contest=(last == ["postal_code"]))]
        if not rec.ok:
            st.state(("failed", rec.exc_type.split(".")[-1]), False)
            return []
        out, sig, nontrivial = self.static(ex, op, rec, st)
        if role == "variant" and ref.ok:
            a, b = ref.nat_sum.to_dict("records")[0], rec.nat_sum.to_dict("records")[0]
            d = C.diff_rows(a, b, list(ref.nat_sum.columns))
            if d or list(ref.nat_sum.columns) != list(rec.nat_sum.columns):
                last = [x for x in p["aggregates"] if x != "unit"][-1:]
                out.append(self.v("depends_on_aggregates", f"summary {a} with aggregates {ref.profile['aggregates']} but {b} with {p['aggregates']}",
                                  last_aggregate_is_contest=(last == ["postal_code"])))
            st.probes["variant_order_compared"] += 1
            last = [x for x in p["aggregates"] if x != "unit"][-1:]
            if last != ["postal_code"]:
                st.probes["variant_last_aggregate_not_contest"] += 1
        st.state((ex.world["office"], role == "variant") + sig, nontrivial)
        return out


def checker(spec):
    return Checker(spec)


def summarise(ex, stats):
    stats.sim_minutes = ex.spec.get("feed_stats", {}).get("sim_minutes", 0.0)
    stats.sample = C.sample_of(ex.spec, max_ops=3) | dict(polls=[{k: v for k, v in o.items() if k in ("role", "national_summary", "override")} for o in ex.spec["ops"] if o["k"] == "poll"])
