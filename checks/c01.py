"""C01 -- counted votes are conserved and every unit is reported exactly once.

State invariant evaluated after every poll of a simulated night; oracle R1 (unit categories) + R2 (group
ledger).  The simulator is the seeded generator of reachable feed states (loss, delay, foreign units,
zero-baseline units, blocklists) with ground-truth bookkeeping."""
import math

from checks import common as C
from nightsim import refmodels as R
from nightsim.profile import profile_signature
from nightsim.world import world_signature

PROP = "C01"
PROP_NO = 1
LEVEL = "exploration"
RULE = ("one evaluation = one completed poll of the real ModelClient on a feed state with unique unit ids; distinct = "
        "distinct abstract state (estimator, request set, world shape, category histogram, structure flags); "
        "non-trivial = the state has at least one nonreporting unit AND at least one of: foreign unit, non-modelled "
        "unit, partially reporting unit, group that exists only through foreign or nonreporting units")
ASSUMPTIONS = [
    "unit ids are globally unique (the same id is never used in two states)",
    "outlier-detection flags are taken as opaque input (validated only to hit reporting+expected units)",
    "attribution of foreign units follows the documented convention: county/district from the id only for requested levels; classification levels exclude every non-modelled unit",
    "bootstrap estimator is run with the margin estimand only (the only one it models)",
]
REAL, STUBBED = C.REAL, C.STUBBED


def budget(tier):
    return dict(nights=300, wall_s=240) if tier == "quick" else dict(nights=4000, wall_s=1500)


WORLD = dict(offices=["G", "G", "S", "H"], unit_types=["precinct", "precinct", "county"], n_states=(1, 3), n_counties=(2, 7),
             n_units=(2, 7), zero_baseline_frac=0.04, odd_unit_frac=0.04, prorated_p=0.1)
PROFILE = dict(estimators=["nonparametric", "nonparametric", "gaussian", "bootstrap"], B=(2, 30), outlier_models_p=0.3)
FEED = dict(p_loss=0.05, n_foreign=(0, 3), max_polls=3, poll_every=(40.0, 160.0), start_polls_after=170.0,
            surge_frac=0.02, boundary_frac=0.05)


def make_spec(st, idx, tier):
    pk = dict(PROFILE)
    spec = C.state_spec(st, tier, WORLD, pk, FEED, min_units=30)
    mp = spec["profile"]["model_parameters"]
    if (mp.get("fit_turnout_outlier_model") or mp.get("fit_margin_outlier_model")) and "unit" not in spec["profile"]["aggregates"]:
        spec["profile"]["aggregates"].append("unit")
    # feed fault 'partial row': the value of one requested estimand has not arrived yet for a unit whose other counts
    # have (vote-count estimands only; the margin estimand needs both parties by definition)
    if spec["profile"]["pi_method"] != "bootstrap":
        n = 0
        for o in spec["ops"]:
            if o["k"] == "deliver" and st.feed.random() < 0.03:
                e = spec["profile"]["estimands"][int(st.feed.integers(0, len(spec["profile"]["estimands"])))]
                o["row"] = dict(o["row"], **{f"results_{e}": None})
                o["partial_row"] = True
                n += 1
        spec["feed_stats"]["partial_rows"] = n
    C.add_unrequested_gaps(st, spec)
    C.feed_as_lists_polls(st, spec)
    C.arrival_polls(st, spec)
    return spec


def check_conservation(chk, world, rec, units, flagged):
    p = rec.profile
    est = p["estimands"]
    out = []
    tabs = rec.tables
    probes = []
    if "unit" in p["aggregates"]:
        ud = tabs.get("unit_data")
        if ud is None:
            return [chk.v("unit_table_missing", "unit aggregate requested but no unit_data returned")], probes
        tab, dups = C.unit_rows(ud)
        if dups:
            out.append(chk.v("unit_duplicated", f"units appear more than once in unit_data: {sorted(set(dups))[:5]}"))
        missing = sorted(set(units) - set(tab))
        extra = sorted(set(tab) - set(units))
        if missing:
            kinds = sorted({units[f]["category"] for f in missing})
            out.append(chk.v("unit_missing", f"units absent from unit_data: {missing[:5]} (categories {kinds})",
                             categories=kinds))
        if extra:
            out.append(chk.v("unit_extra", f"unit_data has units the feed/baseline do not explain: {extra[:5]}"))
        for f in sorted(set(tab) & set(units)):
            r, u = tab[f], units[f]
            cats = {r[c] for c in C.category_columns(ud)}
            if len(cats) != 1:
                out.append(chk.v("category_ambiguous", f"unit {f} carries several categories {sorted(map(str, cats))}"))
                continue
            cat = next(iter(cats))
            want = u["category"]
            if f in flagged:
                if not u["candidate"]:
                    out.append(chk.v("outlier_flag_on_ineligible", f"unit {f} flagged by an outlier model but R1 says {want}"))
                want_rep = 0
            else:
                want_rep = u["reporting"]
                if cat != want:
                    out.append(chk.v("category_wrong", f"unit {f}: category {cat!r}, reference model says {want!r}",
                                     got=str(cat), want=want))
            if int(r["reporting"]) != want_rep:
                out.append(chk.v("unit_reporting_flag", f"unit {f}: reporting={r['reporting']} expected {want_rep} (category {want})"))
            for e in est:
                got = C.fnum(r.get(f"results_{e}"))
                want_c = R.counted(u, e)
                if want_c is None:
                    if not math.isnan(got):
                        out.append(chk.v("unit_counted", f"unit {f}: results_{e}={got} but the feed row has no value for it", estimand=e))
                elif got != float(want_c):
                    out.append(chk.v("unit_counted", f"unit {f}: results_{e}={got} but the feed says {want_c}", estimand=e))
    for agg in p["aggregates"]:
        if agg == "unit":
            continue
        name = R.TABLE_NAME[agg]
        df = tabs.get(name)
        if df is None:
            out.append(chk.v("table_missing", f"{name} requested but not returned", level=agg))
            continue
        keys, groups, unattr = R.ledger(world, units, agg, est, flagged)
        for kcol in keys:
            if kcol not in df.columns:
                out.append(chk.v("key_column_missing", f"{name} lacks key column {kcol}", level=agg))
        if any(kcol not in df.columns for kcol in keys):
            continue
        got_keys = C.key_tuples(df, keys)
        if len(set(got_keys)) != len(got_keys):
            d = sorted({k for k in got_keys if got_keys.count(k) > 1})
            out.append(chk.v("group_duplicated", f"{name}: groups appear more than once: {d[:4]}", level=agg))
            continue
        miss = sorted(set(groups) - set(got_keys))
        extra = sorted(set(got_keys) - set(groups), key=str)
        if miss:
            only_foreign = all(all(units[f]["foreign"] for f in groups[g]["other"]) and not groups[g]["reporting"] and not groups[g]["nonreporting"] for g in miss)
            out.append(chk.v("group_missing", f"{name}: groups with votes in the feed are absent: {miss[:4]}", level=agg,
                             only_foreign=only_foreign))
        if extra:
            out.append(chk.v("group_extra", f"{name}: groups not explained by any unit: {extra[:4]}", level=agg))
        recs = df.to_dict("records")
        for r in recs:
            g = tuple(r[k] for k in keys)
            if g not in groups:
                continue
            L = groups[g]
            if not L["reporting"] and not L["nonreporting"]:
                probes.append("group_only_through_non_modelled_or_foreign")
            if not L["reporting"] and L["nonreporting"] and not L["other"]:
                probes.append("group_only_nonreporting")
            if int(round(C.fnum(r["reporting"]))) != L["n_reporting"] or C.fnum(r["reporting"]) != float(L["n_reporting"]):
                out.append(chk.v("group_reporting_count", f"{name}{g}: reporting={r['reporting']} but {L['n_reporting']} modelled units are at/above the threshold",
                                 level=agg))
            for e in est:
                got = C.fnum(r.get(f"results_{e}"))
                want = float(L["counted"][e])
                if e == "margin":
                    pt = C.fnum(r.get("pred_turnout"))
                    if pt == 0 or math.isnan(pt):
                        ok = want == 0 and (got == 0)
                    else:
                        ok = C.close(got * pt, want, rel=1e-9, abs_=1e-6)
                    if not ok:
                        out.append(chk.v("group_counted", f"{name}{g}: results_margin*pred_turnout={got * pt if pt else got} but the units' counted margins sum to {want}",
                                         level=agg, estimand=e))
                elif got != want:
                    out.append(chk.v("group_counted", f"{name}{g}: results_{e}={got} but the feed rows attributable to it sum to {want}",
                                     level=agg, estimand=e, has_foreign=any(units[f]["foreign"] for f in L["other"])))
    return out, probes


class Checker(C.BaseChecker):
    PROP = PROP

    def after_poll(self, ex, op, rec):
        st = ex.stats
        if not ex.table.unique_ids():
            st.probes["poll_skipped_duplicate_ids"] += 1
            return []
        units, info = R.categorise(ex.world, rec.rows, rec.profile)
        if not rec.ok:
            return []
        st.evaluations += 1
        flagged = set()
        if "unit_data" in rec.tables:
            tab, _ = C.unit_rows(rec.tables["unit_data"])
            flagged = C.flagged_by_outlier_model(tab)
        vs, probes = check_conservation(self, ex.world, rec, units, flagged)
        for pr in probes:
            st.probes[pr] += 1
        cats = {}
        for u in units.values():
            cats[u["category"]] = cats.get(u["category"], 0) + 1
        n_nonrep = sum(1 for u in units.values() if u["category"] == "expected" and not u["reporting"])
        n_partial = sum(1 for u in units.values() if u["category"] == "expected" and not u["reporting"] and u["turnout"] > 0)
        for c in cats:
            st.probes["cat:" + c] += 1
        if info["n_foreign"]:
            st.probes["foreign_units_present"] += 1
        if any(u["live_missing"] for u in units.values()):
            st.probes["zero_policy_filled_missing_unit"] += 1
        if flagged:
            st.probes["outlier_model_flagged_units"] += 1
        if any(any(r.get(c) is None for c in ("results_dem", "results_gop", "results_turnout")) for r in rec.rows):
            st.probes["feed_row_with_missing_estimand_value"] += 1
        nontrivial = n_nonrep > 0 and (info["n_foreign"] > 0 or len(cats) > 1 or n_partial > 0 or bool(probes))
        sig = (profile_signature(rec.profile), world_signature(ex.world),
               tuple(sorted((c, min(3, n)) for c, n in cats.items())), min(3, n_partial), sorted(set(probes)))
        st.state(sig, nontrivial)
        return vs

    def finish(self, ex):
        return []


def checker(spec):
    return Checker(spec)


def summarise(ex, stats):
    stats.sim_minutes = ex.spec.get("feed_stats", {}).get("sim_minutes", 0.0)
    stats.sample = C.sample_of(ex.spec)
