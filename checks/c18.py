"""C18 -- nothing is persisted unless asked; results saved before a too-few-units error.

Fault enumeration over configuration x put faults: for each sampled feed state (both outcomes of the minimum-units
gate), environment (local / non-local), save_output subset and estimator, a fault-free run records the put log and
the local file-write log; then EVERY put index is failed once (raise, or a falsy return).  Oracle R8: the exact set
and order of permitted writes."""
import os
import re
import tempfile

from checks import common as C
from nightsim import refmodels as R
from nightsim.profile import profile_signature
from nightsim.streams import chance, choice
from nightsim.world import world_signature

PROP = "C18"
PROP_NO = 18
LEVEL = "fault_enumeration"
RULE = ("one evaluation = one run (state, environment, save_output subset, estimator, gate outcome, failed put index or none); "
        "within each sampled state every put index is failed once; distinct = distinct (environment, save_output subset, "
        "estimator, gate outcome, summary call, fault kind); non-trivial = the configuration permits at least one write, or it "
        "permits none and the run went through the gate (so that 'nothing is written' is not vacuous)")
ASSUMPTIONS = [
    "two environments: APP_ENV == 'local' and 'prod' (set through the module attribute client.APP_ENV that client.py tests)",
    "local writes are observed through sys.addaudithook (open for writing, mkdir) while the poll runs in a scratch working directory",
    "remote writes are the put_object calls on the sim bucket's client (every S3 client the library creates is a sim client)",
]
REAL = C.REAL
STUBBED = C.STUBBED + ["put faults: k-th put_object raises or returns a falsy response"]
ROOT = "elex-models-dev"
OPTS = ["results", "data", "config", "conformalization"]


def budget(tier):
    return dict(nights=160, wall_s=240) if tier == "quick" else dict(nights=1500, wall_s=1700)


WORLD = dict(offices=["G", "S", "H"], unit_types=["precinct", "county"], n_states=(1, 2), n_counties=(3, 6), n_units=(3, 7), zero_baseline_frac=0.02)
PROFILE = dict(estimators=["nonparametric", "gaussian", "gaussian", "bootstrap"], winsorize_p=0.0, outlier_models_p=0.0, n_alphas=(1, 2),
               max_estimands=2, thresholds=[100, 90], B=(2, 10), fixed_effects_p=0.1)
FEED = dict(p_loss=0.02, n_foreign=(0, 1), max_polls=0)


def make_spec(st, idx, tier):
    if idx % 9 == 8:
        return make_historical_spec(st, idx, tier)
    spec = C.state_spec(st, tier, WORLD, PROFILE, FEED, min_units=30)
    rng = st.storage
    gate_fails = chance(rng, 0.3)
    cut = float(rng.uniform(5, 40)) if gate_fails else float(rng.uniform(280, 480))
    ops = [o for o in spec["ops"] if o["t"] <= cut]
    p = spec["profile"]
    p["app_env"] = choice(rng, ["local", "prod", "prod", "prod"])
    so = [o for o in OPTS if chance(rng, 0.65 if o == "results" else 0.45)]
    if chance(rng, 0.15):
        so = []
    perm = rng.permutation(len(so))
    p["save_output"] = [so[int(i)] for i in perm]
    ns = None
    if p["pi_method"] == "bootstrap" and chance(rng, 0.6):
        p["aggregates"] = ["postal_code"] + [a for a in p["aggregates"] if a != "postal_code"]
        ns = dict(weights=None, base=0, alphas=[0.9])
    seq = [dict(k="poll", role="base", fresh_client=True, national_summary=ns)]
    # upper bound on the number of puts of this configuration; every index below it is failed once
    n_tables = len(p["aggregates"]) + 1
    n_gauss = 2 * len(p["estimands"]) * len([a for a in p["aggregates"] if a != "unit"]) * len(p["prediction_intervals"])
    max_puts = 2 + n_tables + n_gauss + 1
    kinds = ["raise", "falsy"]
    for j in range(max_puts):
        seq.append(dict(k="poll", role="put_fault", put_fault=dict(at=j, kind=kinds[j % 2] if chance(rng, 0.5) else kinds[(j + 1) % 2]),
                        fresh_client=True, national_summary=ns))
    # the client object that just experienced failed writes is used again, without a fault: it must write exactly what the
    # fault-free run wrote (nothing half-done is remembered, nothing is skipped)
    seq.append(dict(k="poll", role="after_faults", fresh_client=False, national_summary=ns))
    # a rejected request in the middle of a client's life: the operator names another election / office / unit type (the
    # library raises); nothing may be written for it, and a later national-summary call on the same client still belongs
    # to the completed run -- it is saved under that run's election, office and unit type, nowhere else
    if chance(rng, 0.5):
        w = spec["world"]
        other_office = choice(rng, [o for o in ["G", "S", "H", "P"] if o != w["office"]])
        other_ut = choice(rng, [u for u in ["precinct", "county", "precinct-district", "county-district"] if u != w["unit_type"]])
        bad = choice(rng, [dict(election_id="2021-11-02_VA_G"), dict(office=other_office), dict(unit_type=other_ut),
                           dict(office=other_office, unit_type=other_ut)])
        seq.append(dict(k="poll", role="rejected", fresh_client=False, override=dict(request_ids=bad)))
        if ns is not None:
            seq.append(dict(k="poll", role="summary_again", fresh_client=False, national_summary=ns, override=dict(summary_only=True)))
        seq.append(dict(k="poll", role="after_rejected", fresh_client=False, national_summary=ns))
    # call history in one process: the same argument objects (model_parameters dict, config, frame) are passed again to
    # fresh clients with other save_output choices -- an earlier request must not leak into a later one
    if chance(rng, 0.6):
        for j in range(3):
            so2 = [o for o in OPTS if chance(rng, 0.5)]
            # ... either to a fresh client or to the very client object that served the earlier requests
            seq.append(dict(k="poll", role="history", fresh_client=bool(chance(rng, 0.5)), reuse_args=bool(chance(rng, 0.6)), override=dict(save_output=so2)))
    if not p["model_parameters"] or chance(rng, 0.15):
        # the keyword's default value (a shared mutable dict in the signature) instead of an explicit argument
        for j in range(2):
            so2 = [o for o in OPTS if chance(rng, 0.5)]
            seq.append(dict(k="poll", role="history", fresh_client=True, override=dict(save_output=so2, omit_model_parameters=True, model_parameters={})))
    for i, o in enumerate(seq):
        o["t"] = round(cut + 0.001 * (i + 1), 4)
    spec["ops"] = ops + seq
    return spec


def permitted(world, p, rec, summary):
    """R8: (list of permitted remote keys in groups, permitted local files)."""
    eid, office, ut = world["election_id"], world["office"], world["unit_type"]
    so = set(p["save_output"])
    remote_live, remote_gauss, remote_pred = [], [], []
    if p["app_env"] != "local" and "results" in so:
        remote_live = [f"{ROOT}/{eid}/results/{office}/{ut}/current.csv", f"{ROOT}/{eid}/results/{office}/{ut}/current_counties.csv"]
        tabs = [R.TABLE_NAME[a] for a in p["aggregates"]]
        remote_pred = [f"{ROOT}/{eid}/predictions/{office}/{ut}/{t}/current.csv" for t in tabs]
        if summary:
            remote_pred.append(f"{ROOT}/{eid}/predictions/{office}/{ut}/nat_sum_data/current.csv")
    if "conformalization" in so and p["pi_method"] == "gaussian":
        for e in p["estimands"]:
            for a in p["aggregates"]:
                if a == "unit":
                    continue
                last = R.aggregate_keys(office, a)[-1]
                for al in p["prediction_intervals"]:
                    base = f"{ROOT}/{eid}/gaussian/{office}/{ut}/{e}-{last}-{al}"
                    remote_gauss += [base + "/conformalization_data.csv", base + "/bounds.csv"]
    local = []
    if "config" in so:
        local.append(f"config/{eid}.json")
    if "data" in so:
        local.append(f"data/{eid}/{office}/data_{ut}.csv")
    return remote_live, remote_gauss, remote_pred, local


class Checker(C.BaseChecker):
    PROP = PROP

    def __init__(self, spec):
        super().__init__(spec)
        self.base = None
        self.n_base_puts = None

    def should_skip(self, ex, op):
        # a fault index beyond the puts this configuration makes has nothing to fail
        f = op.get("put_fault")
        return f is not None and (self.n_base_puts is None or f["at"] >= self.n_base_puts)

    def after_poll(self, ex, op, rec):
        st = ex.stats
        role = op.get("role")
        p = rec.profile
        world = ex.world
        fault = op.get("put_fault")
        st.evaluations += 1
        summary = op.get("national_summary") is not None
        live, gauss, pred, local = permitted(world, p, rec, summary)
        if role == "rejected":
            # the request names ids the configuration does not have: it must be refused and write nothing remotely (local
            # 'config' / 'data' files are what save_output asked for, under the ids the request named)
            ids = dict(election_id=world["election_id"], office=world["office"], unit_type=world["unit_type"])
            ids.update(p["request_ids"])
            live, gauss, pred = [], [], []
            local = ([f"config/{ids['election_id']}.json"] if "config" in p["save_output"] else []) + \
                    ([f"data/{ids['election_id']}/{ids['office']}/data_{ids['unit_type']}.csv"] if "data" in p["save_output"] else [])
            if rec.ok:
                st.probes["request_with_other_ids_was_accepted"] += 1
                return []
            st.probes["rejected_request_on_a_used_client:" + "+".join(sorted(p["request_ids"]))] += 1
        if role == "summary_again":
            live, gauss, local = [], [], []
            pred = pred[-1:] if (pred and self.base is not None and self.base.ok) else []
        out = []
        eid = world["election_id"]
        keys = [x["key"] for x in rec.puts]
        gate = (not rec.ok) and rec.exc_type == "elexmodel.client.ModelNotEnoughSubunitsException"
        flags = dict(env=p["app_env"], estimator=p["pi_method"], gate="raised" if gate else "passed")
        # every key: whitespace-free path under root/election id, and permitted
        allowed = set(live) | set(gauss) | set(pred)
        for k in keys:
            if not re.match(rf"^{re.escape(ROOT)}/{re.escape(eid)}/\S+$", k or "") or re.search(r"\s", k or ""):
                out.append(self.v("bad_key", f"remote key {k!r} is not a whitespace-free path under {ROOT}/{eid}/", **flags))
            elif k not in allowed:
                what = k.split("/")[2] if k.count("/") > 2 else k
                out.append(self.v("unrequested_remote_write", f"put of {k!r} with save_output={p['save_output']} in environment {p['app_env']!r}",
                                  what=what, **flags))
        for x in rec.puts:
            if x["bucket"] != ROOT:
                out.append(self.v("bad_bucket", f"put to bucket {x['bucket']!r}", **flags))
        # local files
        cwd = os.path.realpath(os.getcwd())
        lw = []
        for ev, path in rec.file_writes:
            rp = os.path.realpath(path)
            rel = os.path.relpath(rp, cwd) if rp.startswith(cwd + os.sep) else rp
            lw.append((ev, rel))
        allowed_local = set(local)
        allowed_dirs = set()
        for f in local:
            d = os.path.dirname(f)
            while d:
                allowed_dirs.add(d)
                d = os.path.dirname(d)
        for ev, rel in lw:
            if ev == "open" and rel not in allowed_local:
                out.append(self.v("unrequested_local_write", f"local file {rel!r} written with save_output={p['save_output']}", **flags))
            if ev == "os.mkdir" and rel not in allowed_dirs:
                out.append(self.v("unrequested_local_write", f"local directory {rel!r} created with save_output={p['save_output']}", **flags))
        if role == "rejected":
            st.state(("rejected", p["app_env"], tuple(sorted(p["save_output"])), p["pi_method"], tuple(sorted(p["request_ids"]))), True)
            return out
        if role == "summary_again":
            ok_keys = [x["key"] for x in rec.puts if x["ok"]]
            if self.base is not None and self.base.ok:
                if not rec.ok:
                    out.append(self.v("summary_after_rejected_request", f"national summary after a rejected request failed: {rec.exc_type}: {rec.exc_msg}", **flags))
                elif ok_keys != pred:
                    out.append(self.v("summary_after_rejected_request", f"national summary of the completed run was saved as {ok_keys}, it belongs under {pred}", **flags))
                st.probes["summary_call_after_rejected_request"] += 1
            st.state(("summary_again", p["app_env"], tuple(sorted(p["save_output"])), bool(pred)), True)
            return out
        if fault is None:
            completed = rec.ok
            if not rec.ok and not gate:
                st.probes["base_failed_other:" + rec.exc_type.split(".")[-1]] += 1
                return out
            # requested things are written
            ok_keys = [x["key"] for x in rec.puts if x["ok"]]
            if live and ok_keys[: len(live)] != live:
                out.append(self.v("live_results_not_first", f"live results {live} must be the first remote writes; puts were {ok_keys[:4]}", **flags))
            if gate:
                if sorted(ok_keys) != sorted(live):
                    out.append(self.v("gate_run_writes", f"run ended in the too-few-units error: expected exactly the live results {live}, got {ok_keys}", **flags))
                st.probes["gate_raised_with_live_results_saved" if live else "gate_raised_nothing_to_save"] += 1
            elif completed:
                if sorted(ok_keys) != sorted(live + gauss + pred):
                    miss = sorted(set(live + gauss + pred) - set(ok_keys))
                    extra = sorted(set(ok_keys) - set(live + gauss + pred))
                    dup = len(ok_keys) != len(set(ok_keys))
                    out.append(self.v("write_set", f"writes differ from the request: missing={miss[:3]} extra={extra[:3]} duplicates={dup}", missing=bool(miss), **flags))
                if pred and sorted(ok_keys[-len(pred):]) == sorted(pred):
                    st.probes["prediction_tables_written_last"] += 1
                for f in local:
                    if ("open", f) not in lw:
                        out.append(self.v("local_file_missing", f"{f} requested but not written", **flags))
            if role == "after_faults" and self.base is not None:
                st.probes["poll_on_the_client_that_saw_failed_writes"] += 1
                if [x["key"] for x in rec.puts] != [x["key"] for x in self.base.puts] or rec.ok != self.base.ok:
                    out.append(self.v("state_after_failed_write", f"after failed writes the same client wrote {[x['key'].split('/', 2)[-1] for x in rec.puts][:6]} (outcome {rec.exc_type}), "
                                                                  f"the fault-free run wrote {[x['key'].split('/', 2)[-1] for x in self.base.puts][:6]}", **flags))
            if role == "base":
                self.n_base_puts = len(rec.puts)
                self.base = rec
                st.probes["base_puts:%d" % min(len(rec.puts), 9)] += 1
            else:
                st.probes["history_poll_with_reused_arguments"] += 1
        else:
            st.probes["put_fault_fired:" + fault["kind"]] += 1
            if rec.ok:
                out.append(self.v("put_failure_swallowed", f"put #{fault['at']} failed ({fault['kind']}) but the run reported success", **flags))
            # after the failure nothing outside R8 may be written (already checked above for every key)
        nontrivial = bool(live or gauss or pred or local) or (not gate)
        st.state((p["app_env"], tuple(sorted(p["save_output"])), p["pi_method"], gate, summary, fault["kind"] if fault else None), nontrivial)
        return out


def checker(spec):
    return Checker(spec)


def make_historical_spec(st, idx, tier):
    from checks import c10 as H

    spec = H.make_historical_spec(st, idx, tier)
    rng = st.storage
    spec["kind"] = "historical_persistence"
    spec["profile"]["app_env"] = choice(rng, ["local", "prod", "prod"])
    spec["profile"]["save_output"] = [o for o in ["results", "data", "config"] if chance(rng, 0.6)]
    if chance(rng, 0.5):
        spec["profile"]["estimands"] = ["dem", "turnout"]
    return spec


def run_historical(spec, stats):
    """HistoricalModelClient in the chosen environment: what it writes must be what save_output names."""
    import copy
    import json

    import pandas as pd
    from elexmodel.client import HistoricalModelClient
    from nightsim import seams
    from nightsim.framework import Violation
    from nightsim.runner import FEED_COLS

    world, p = spec["world"], spec["profile"]
    eid, hid = world["election_id"], "2018-11-06_USA_G"
    office, ut = world["office"], world["unit_type"]
    cfg = copy.deepcopy(world["config"])
    cfg[eid][0]["historical_election"] = [hid]
    hcfg = {hid: copy.deepcopy(cfg[eid])}
    bucket = seams.STORAGE.new_night()
    bucket.seed_object(f"{ROOT}/{eid}/config/{eid}.json", json.dumps(cfg))
    bucket.seed_object(f"{ROOT}/{hid}/config/{hid}.json", json.dumps(hcfg))
    bucket.seed_object(f"{ROOT}/{hid}/data/{office}/data_{ut}.csv", pd.DataFrame(spec["hist"]).to_csv(index=False))
    cur = pd.DataFrame(spec["live"])[FEED_COLS]
    cur["geographic_unit_fips"] = cur["geographic_unit_fips"].astype(str)
    seams.set_app_env(p["app_env"])
    put0 = len(bucket.put_log)
    out = []
    with seams.record_file_writes() as fw:
        try:
            HistoricalModelClient().get_historical_evaluation(
                cur, eid, office, list(p["estimands"]), list(p["prediction_intervals"]), p["threshold"], ut, pi_method=p["pi_method"],
                aggregates=list(p["aggregates"]), features=list(p["features"]), model_parameters=copy.deepcopy(p["model_parameters"]),
                save_output=list(p["save_output"]))
            ok, err = True, None
        except Exception as e:  # noqa: BLE001
            ok, err = False, f"{type(e).__name__}: {e}"
    seams.set_app_env("local")
    keys = [x["key"] for x in bucket.put_log[put0:]]
    stats.polls += 1
    stats.evaluations += 1
    if ok:
        stats.polls_ok += 1
    else:
        stats.repo_errors[err.split(":")[0]] += 1
    remote_ok = p["app_env"] != "local" and "results" in p["save_output"]
    flags = dict(env=p["app_env"], estimator=p["pi_method"], gate="historical")
    for k in keys:
        if not remote_ok:
            out.append(Violation(PROP, "unrequested_remote_write", f"historical evaluation wrote {k!r} with save_output={p['save_output']} in environment {p['app_env']!r}", dict(flags, what="historical")))
        elif not re.match(rf"^{re.escape(ROOT)}/({re.escape(eid)}|{re.escape(hid)})/\S+$", k) or re.search(r"\s", k):
            out.append(Violation(PROP, "bad_key", f"remote key {k!r} is not a whitespace-free path under the root and an election id", dict(flags, n_estimands=len(p["estimands"]))))
    cwd = os.path.realpath(os.getcwd())
    for ev, path in fw:
        rp = os.path.realpath(path)
        rel = os.path.relpath(rp, cwd) if rp.startswith(cwd + os.sep) else rp
        allowed = ("config/", "data/") if ("config" in p["save_output"] or "data" in p["save_output"]) else ()
        if not (rel.startswith(allowed) if allowed else False) and rel not in ("config", "data"):
            out.append(Violation(PROP, "unrequested_local_write", f"historical evaluation wrote local {rel!r} with save_output={p['save_output']}", flags))
    stats.probes["historical_evaluation:" + ("wrote_remote" if keys else "no_remote_write")] += 1
    stats.state(("historical", p["app_env"], tuple(sorted(p["save_output"])), len(p["estimands"]), ok), bool(keys) or not remote_ok)
    stats.sample = dict(kind="historical_persistence", night_seed=spec.get("night_seed"), profile={k: p[k] for k in ("app_env", "save_output", "estimands", "pi_method")}, keys=keys[:6])
    return out, "hist"


def run_custom(spec, stats):
    from nightsim.framework import NightExec

    if spec.get("kind") == "historical_persistence":
        old = os.getcwd()
        with tempfile.TemporaryDirectory(prefix="c18h-") as d:
            os.chdir(d)
            try:
                return run_historical(spec, stats)
            finally:
                os.chdir(old)

    old = os.getcwd()
    with tempfile.TemporaryDirectory(prefix="c18-") as d:
        os.chdir(d)
        try:
            ex = NightExec(spec, Checker(spec), stats)
            vs = ex.run()
        finally:
            os.chdir(old)
    stats.sim_minutes = spec.get("feed_stats", {}).get("sim_minutes", 0.0)
    stats.sample = C.sample_of(spec, max_ops=2) | dict(polls=[{k: v for k, v in o.items() if k in ("role", "put_fault")} for o in spec["ops"] if o["k"] == "poll"][:5])
    return vs, ex.digest()
