"""C03 -- counted votes are a floor and reported units are final.  State invariant after every poll."""
import math

from checks import common as C
from nightsim import refmodels as R
from nightsim.profile import profile_signature
from nightsim.world import world_signature

PROP = "C03"
PROP_NO = 3
LEVEL = "exploration"
RULE = ("one evaluation = one completed poll; distinct = distinct abstract state (estimator, request set, world shape, floor "
        "flags); non-trivial = at least one nonreporting unit has a non-zero partial count, and the state contains a "
        "reporting or non-modelled unit whose row must be final")
ASSUMPTIONS = [
    "unit ids unique; outlier flags opaque",
    "whole number = equal to its own rounding; finiteness checked on every pred/lower/upper cell of every returned table",
]
REAL, STUBBED = C.REAL, C.STUBBED


def budget(tier):
    return dict(nights=250, wall_s=240) if tier == "quick" else dict(nights=4500, wall_s=1700)


WORLD = dict(offices=["G", "S", "H"], unit_types=["precinct", "precinct", "county"], n_states=(1, 3), n_counties=(2, 7),
             n_units=(2, 7), zero_baseline_frac=0.04)
PROFILE = dict(estimators=["nonparametric", "nonparametric", "gaussian", "gaussian", "bootstrap"], B=(2, 25), always_unit=True,
               thresholds=[100, 90, 60, 30, 100])
FEED = dict(p_loss=0.04, n_foreign=(0, 2), max_polls=3, poll_every=(40.0, 160.0), start_polls_after=170.0,
            surge_frac=0.12, boundary_frac=0.06, final_poll=True, versions=(2, 5))


def make_spec(st, idx, tier):
    spec = C.state_spec(st, tier, WORLD, PROFILE, FEED, min_units=30)
    if st.sched.random() < 0.15:
        # a night that runs to the end: everything delivered, nothing lost -> 100 % reporting at the last poll
        spec["ops"] = [o for o in spec["ops"] if o["k"] != "lost"]
    C.arrival_polls(st, spec)
    return spec


def whole(x):
    return math.isfinite(x) and x == round(x)


class Checker(C.BaseChecker):
    PROP = PROP

    def after_poll(self, ex, op, rec):
        st = ex.stats
        if not ex.table.unique_ids() or not rec.ok:
            return []
        p = rec.profile
        units, info = R.categorise(ex.world, rec.rows, p)
        ud = rec.tables.get("unit_data")
        if ud is None:
            return []
        utab, _ = C.unit_rows(ud)
        if set(utab) != set(units):
            return []
        flagged = C.flagged_by_outlier_model(utab)
        st.evaluations += 1
        out = []
        est, alphas, pi = p["estimands"], p["prediction_intervals"], p["pi_method"]
        n_partial = 0
        n_final = 0
        for f, r in utab.items():
            u = units[f]
            final = (u["reporting"] == 1 and f not in flagged) or u["category"] != "expected" or f in flagged
            if final:
                n_final += 1
            for e in est:
                cnt = C.fnum(r[f"results_{e}"])
                cols = [f"pred_{e}"] + [f"{s}_{a}_{e}" for a in alphas for s in ("lower", "upper")]
                if not final and cnt != 0:
                    n_partial += 1
                for col in cols:
                    x = C.fnum(r[col])
                    if not math.isfinite(x):
                        out.append(self.v("not_finite", f"unit {f}: {col} is {x}", table="unit_data", estimator=pi))
                        continue
                    if final:
                        if x != cnt:
                            out.append(self.v("reported_unit_not_final", f"unit {f} ({u['category']}, reporting={u['reporting']}): {col}={x} but its counted votes are {cnt}",
                                              estimator=pi, column=col.split("_")[0]))
                    elif pi != "bootstrap":
                        if x < cnt:
                            out.append(self.v("below_counted", f"unit {f}: {col}={x} is below its counted votes {cnt}",
                                              table="unit_data", estimator=pi, column=col.split("_")[0]))
                        if not whole(x):
                            out.append(self.v("not_whole", f"unit {f}: {col}={x} is not a whole number", table="unit_data", estimator=pi))
                        if x == cnt and cnt > 0:
                            st.probes["unit_value_floored_at_partial_count:" + col.split("_")[0]] += 1
        if pi != "bootstrap":
            for agg in p["aggregates"]:
                if agg == "unit":
                    continue
                name = R.TABLE_NAME[agg]
                df = rec.tables.get(name)
                if df is None:
                    continue
                keys, groups, _ = R.ledger(ex.world, units, agg, est, flagged)
                if any(k not in df.columns for k in keys):
                    continue
                for r in df.to_dict("records"):
                    g = tuple(r[k] for k in keys)
                    L = groups.get(g)
                    if L is None:
                        continue
                    for e in est:
                        cnt = C.fnum(r[f"results_{e}"])
                        for col in [f"pred_{e}"] + [f"{s}_{a}_{e}" for a in alphas for s in ("lower", "upper")]:
                            x = C.fnum(r[col])
                            if not math.isfinite(x):
                                out.append(self.v("not_finite", f"{name}{g}: {col} is {x}", table=name, estimator=pi))
                                continue
                            if x < cnt:
                                out.append(self.v("below_counted", f"{name}{g}: {col}={x} is below the group's counted votes {cnt}",
                                                  table=name, estimator=pi, column=col.split("_")[0]))
                            if not whole(x):
                                out.append(self.v("not_whole", f"{name}{g}: {col}={x} is not a whole number", table=name, estimator=pi))
                            if not L["nonreporting"] and x != cnt:
                                out.append(self.v("complete_group_not_final", f"{name}{g} has no nonreporting units but {col}={x} != counted {cnt}",
                                                  table=name, estimator=pi, column=col.split("_")[0]))
                            if L["nonreporting"] and x == cnt and col.startswith("lower") and cnt > 0:
                                st.probes["group_lower_bound_at_counted"] += 1
                    if not L["nonreporting"]:
                        st.probes["group_fully_reported"] += 1
        n_nonrep = sum(1 for u in units.values() if u["category"] == "expected" and not u["reporting"])
        if n_nonrep == 0:
            st.probes["poll_at_100_percent_reporting"] += 1
        nontrivial = n_partial > 0 and n_final > 0
        st.probes["estimator:" + pi] += 1
        st.state((profile_signature(p), world_signature(ex.world), min(3, n_partial), n_nonrep == 0,
                  ex.spec.get("feed_stats", {}).get("kinds", {}).get("surge", 0) > 0), nontrivial)
        return out


def checker(spec):
    return Checker(spec)


def summarise(ex, stats):
    stats.sim_minutes = ex.spec.get("feed_stats", {}).get("sim_minutes", 0.0)
    stats.sample = C.sample_of(ex.spec)
