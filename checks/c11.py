"""C11 -- an unexpected unit only adds its own votes.

Transition check: the scheduler places a probe poll immediately before and immediately after the arrival of one
foreign unit (nothing else happens in between); the two outputs are compared cell by cell."""
import math

from checks import common as C
from nightsim import refmodels as R
from nightsim.night import foreign_unit
from nightsim.profile import profile_signature
from nightsim.streams import chance
from nightsim.world import world_signature

PROP = "C11"
PROP_NO = 11
LEVEL = "exploration"
RULE = ("one evaluation = one before/after pair of polls around the arrival of one foreign unit; distinct = distinct "
        "(estimator, aggregate set, office, known/unknown county, known/unknown district, new group created, votes zero/non-zero); "
        "non-trivial = the 'before' poll produced estimates (enough reporting units) and at least one aggregate besides the unit "
        "table was requested")
ASSUMPTIONS = [
    "attribution convention as in C01 (county/district recovered from the id only for requested levels; never a classification)",
    "bootstrap: numerator/denominator identities at 1e-9 relative; the affected group's interval is only required to stay ordered around its prediction (the statement gives no closed form for it); all other rows bit-identical",
    "the foreign unit is in a state that has an election (unit ids carry the state)",
]
REAL, STUBBED = C.REAL, C.STUBBED


def budget(tier):
    return dict(nights=280, wall_s=240) if tier == "quick" else dict(nights=4000, wall_s=1700)


WORLD = dict(offices=["G", "S", "H", "H"], unit_types=["precinct", "precinct", "county"], n_states=(1, 3), n_counties=(2, 6),
             n_units=(2, 7), zero_baseline_frac=0.03)
PROFILE = dict(estimators=["nonparametric", "gaussian", "bootstrap", "bootstrap"], B=(2, 20), winsorize_p=0.0)
FEED = dict(p_loss=0.04, n_foreign=(0, 1), max_polls=0, surge_frac=0.02, boundary_frac=0.03)


def make_spec(st, idx, tier):
    spec = C.state_spec(st, tier, WORLD, PROFILE, FEED, min_units=30)
    ops = spec["ops"]
    world = spec["world"]
    n_pairs = 2 if chance(st.sched, 0.4) else 1
    cuts = sorted(float(x) for x in st.sched.uniform(200, 470, size=n_pairs))
    out = []
    i = 0
    serial = 50
    for c in cuts:
        while i < len(ops) and ops[i]["t"] <= c:
            out.append(ops[i])
            i += 1
        serial += 1
        row, info = foreign_unit(st.shadow, world, serial, new_state_p=0.2)
        if any(o.get("u") == row["geographic_unit_fips"] for o in out) or any(r["geographic_unit_fips"] == row["geographic_unit_fips"] for r in world["baseline"]):
            continue
        out.append(dict(t=round(c, 3), k="poll", role="before"))
        out.append(dict(t=round(c, 3), k="foreign", u=row["geographic_unit_fips"], row=row, info=info))
        out.append(dict(t=round(c, 3), k="poll", role="after"))
    spec["ops"] = out
    return spec


class Checker(C.BaseChecker):
    PROP = PROP

    def __init__(self, spec):
        super().__init__(spec)
        self.before = None

    def after_poll(self, ex, op, rec):
        if op.get("role") == "before":
            self.before = rec
            return []
        if op.get("role") != "after" or self.before is None:
            return []
        bef, aft = self.before, rec
        self.before = None
        st = ex.stats
        if not ex.table.unique_ids():
            return []
        p = aft.profile
        fop = ex.spec["ops"][ex.op_index - 1]
        frow = fop["row"]
        fid = frow["geographic_unit_fips"]
        st.evaluations += 1
        out = []
        if bef.ok != aft.ok or bef.exc_type != aft.exc_type:
            out.append(self.v("run_failed", f"before the foreign unit {fid} arrived the outcome was {bef.exc_type or 'estimates'}, after it {aft.exc_type}: {aft.exc_msg}",
                              estimator=p["pi_method"], exception=(aft.exc_type or "none").split(".")[-1]))
            return out
        if not bef.ok:
            st.state(("too_few", p["pi_method"]), False)
            return out
        units, _ = R.categorise(ex.world, aft.rows, p)
        fu = units[fid]
        est, alphas, pi = p["estimands"], p["prediction_intervals"], p["pi_method"]
        new_group_any = False
        for name in sorted(set(bef.tables) | set(aft.tables)):
            if name not in bef.tables or name not in aft.tables:
                out.append(self.v("table_set_changed", f"table {name} present only {'before' if name in bef.tables else 'after'}"))
                continue
            A, B = bef.tables[name], aft.tables[name]
            if list(A.columns) != list(B.columns):
                out.append(self.v("columns_changed", f"{name}: columns changed {list(A.columns)} -> {list(B.columns)}"))
                continue
            keys = C.table_keys(ex.world, name)
            ia, ib = C.index_rows(A, keys), C.index_rows(B, keys)
            cols = [c for c in A.columns]
            if name == "unit_data":
                if set(ib) - set(ia) != {(fu["postal_code"], fid)} or set(ia) - set(ib):
                    out.append(self.v("unit_rows", f"unit_data row set changed by {sorted(set(ib) ^ set(ia))[:4]} instead of exactly the new unit {fid}"))
                    continue
                r = ib[(fu["postal_code"], fid)]
                cats = {r[c] for c in C.category_columns(B)}
                if cats != {"unexpected"} or int(r["reporting"]) != 0:
                    out.append(self.v("new_unit_row", f"new unit {fid}: category {sorted(map(str, cats))} reporting {r['reporting']}"))
                for e in est:
                    v = float(R.counted(fu, e))
                    for col in [f"results_{e}", f"pred_{e}"] + [f"{s}_{a}_{e}" for a in alphas for s in ("lower", "upper")]:
                        if C.fnum(r[col]) != v:
                            out.append(self.v("new_unit_row", f"new unit {fid}: {col}={r[col]} but its counted value is {v}"))
                for k, ra in ia.items():
                    d = C.diff_rows(ra, ib[k], cols, rel=(1e-9 if pi == 'bootstrap' else None))
                    if d:
                        out.append(self.v("other_unit_changed", f"unit {k[1]} changed in {d[:4]} when foreign unit {fid} arrived",
                                          estimator=pi, column=d[0].split("_")[0]))
                        break
                continue
            inv = {v: k for k, v in R.TABLE_NAME.items()}
            agg = inv[name]
            is_class = "county_classification" in keys
            gk = None if is_class else tuple(fu[k] for k in keys)
            if gk is not None and any(x is None for x in gk):
                gk = None
            if gk is None:
                st.probes["unattributable_at_level:" + agg] += 1
            for k in sorted(set(ia) | set(ib), key=str):
                if k == gk:
                    continue
                if k not in ia or k not in ib:
                    out.append(self.v("group_set_changed", f"{name}: group {k} {'appeared' if k in ib else 'vanished'} although the new unit belongs to {gk}", level=agg))
                    continue
                d = C.diff_rows(ia[k], ib[k], cols, rel=(1e-9 if pi == 'bootstrap' else None))
                if d:
                    out.append(self.v("other_group_changed", f"{name}{k}: {d[:4]} changed ({ia[k][d[0]]} -> {ib[k][d[0]]}) although the new unit belongs to {gk}",
                                      level=agg, estimator=pi, column=d[0].split("_")[0]))
                    break
            if gk is None:
                continue
            if gk not in ib:
                out.append(self.v("group_missing", f"{name}: the new unit's group {gk} is absent after its arrival", level=agg, estimator=pi))
                continue
            rb = ib[gk]
            ra = ia.get(gk)
            if ra is None:
                new_group_any = True
                st.probes["new_group_created"] += 1
            if pi != "bootstrap":
                for e in est:
                    v = float(R.counted(fu, e))
                    for col in [f"results_{e}", f"pred_{e}"] + [f"{s}_{a}_{e}" for a in alphas for s in ("lower", "upper")]:
                        base = C.fnum(ra[col]) if ra is not None else 0.0
                        if C.fnum(rb[col]) != base + v:
                            out.append(self.v("group_not_plus_v", f"{name}{gk}: {col} went {base if ra is not None else 'absent'} -> {rb[col]}, expected +{v}",
                                              level=agg, estimator=pi, column=col.split("_")[0], new_group=ra is None))
                rep0 = C.fnum(ra["reporting"]) if ra is not None else 0.0
                if C.fnum(rb["reporting"]) != rep0:
                    out.append(self.v("group_reporting_changed", f"{name}{gk}: reporting {rep0} -> {rb['reporting']}", level=agg))
            else:
                m, w = float(fu["margin"]), float(fu["weights"])
                t0 = C.fnum(ra["pred_turnout"]) if ra is not None else 0.0
                t1 = C.fnum(rb["pred_turnout"])
                if not C.close(t1, t0 + w, rel=1e-9, abs_=1e-6):
                    out.append(self.v("bootstrap_turnout_not_plus_w", f"{name}{gk}: pred_turnout {t0} -> {t1}, expected +{w}", level=agg, new_group=ra is None))
                    continue
                for col in ("pred_margin", "results_margin"):
                    n0 = (C.fnum(ra[col]) * t0) if ra is not None else 0.0
                    n1 = C.fnum(rb[col]) * t1
                    if not C.close(n1, n0 + m, rel=1e-9, abs_=1e-6):
                        out.append(self.v("bootstrap_margin_not_plus_m", f"{name}{gk}: {col}*pred_turnout {n0} -> {n1}, expected +{m}", level=agg,
                                          column=col, new_group=ra is None))
                for a in alphas:
                    lo, up, pm = C.fnum(rb[f"lower_{a}_margin"]), C.fnum(rb[f"upper_{a}_margin"]), C.fnum(rb["pred_margin"])
                    if not (lo <= pm <= up):
                        out.append(self.v("bootstrap_interval_disordered", f"{name}{gk}: after the arrival [{lo}, {up}] does not contain {pm}", level=agg))
        info = fop.get("info", {})
        aggs = tuple(sorted(a for a in p["aggregates"]))
        nontrivial = any(a != "unit" for a in p["aggregates"])
        st.probes["estimator:" + pi] += 1
        st.probes["known_county" if info.get("known_county") else "unknown_county"] += 1
        st.state((pi, aggs, ex.world["office"], ex.world["unit_type"], bool(info.get("known_county")), info.get("known_district"),
                  new_group_any, frow["results_turnout"] == 0, frow["percent_expected_vote"] >= p["threshold"]), nontrivial)
        return out


def checker(spec):
    return Checker(spec)


def summarise(ex, stats):
    stats.sim_minutes = ex.spec.get("feed_stats", {}).get("sim_minutes", 0.0)
    stats.sample = C.sample_of(ex.spec, max_ops=6) | dict(last_ops=[{k: v for k, v in o.items() if k in ("t", "k", "u", "role", "row")} for o in ex.spec["ops"][-3:]])
