"""C07 -- race calls and call-stops are always honoured; contradictory calls are rejected.

Operator history: seeded subsets of contests called left / right / stop-listed (including contradictory and unknown
ones).  Static part: decision table on every poll with calls.  Transition part: a shadow poll with the same feed
state and no calls -- rows of contests neither called nor stopped must be identical."""
from checks import common as C
from checks.c06 import contests_of
from nightsim import refmodels as R
from nightsim.streams import chance, choice

PROP = "C07"
PROP_NO = 7
LEVEL = "exploration"
RULE = ("one evaluation = one (poll with calls, shadow poll without calls) pair, or one poll with a contradictory / unknown call; "
        "distinct = distinct (office, number of contests, pattern of called-left / called-right / stopped, sign pattern of the "
        "uncalled model output for the called contests, levels); non-trivial = at least one contest is called against the sign of "
        "the model's own prediction or bound, or is stop-listed while the model alone would have called it, or the call is invalid")
ASSUMPTIONS = [
    "the contest level (postal_code; postal_code+district for district offices) is always among the requested aggregates, as the README requires",
    "a contest that is both called and stop-listed is only required to keep its prediction on the called side (the statement exempts the bound)",
    "uncalled/unstopped rows are compared at 1e-12 relative",
]
REAL, STUBBED = C.REAL, C.STUBBED


def budget(tier):
    return dict(nights=180, wall_s=240) if tier == "quick" else dict(nights=2400, wall_s=1700)


WORLD = dict(offices=["G", "S", "H", "H"], unit_types=["precinct", "precinct", "county"], n_states=(2, 4), n_counties=(2, 5),
             n_units=(2, 6), zero_baseline_frac=0.02)
PROFILE = dict(estimators=["bootstrap"], n_alphas=(1, 3), alpha_range=(0.3, 0.99), B=(3, 40), fixed_effects_p=0.15, blocklist_p=0.1,
               always_state=True)
FEED = dict(p_loss=0.03, n_foreign=(0, 1), max_polls=0, surge_frac=0.02)


def make_spec(st, idx, tier):
    spec = C.state_spec(st, tier, WORLD, PROFILE, FEED, min_units=36)
    p = spec["profile"]
    p["aggregates"] = ["postal_code"] + [a for a in p["aggregates"] if a != "postal_code"]
    rng = st.operator
    cut = float(st.sched.uniform(250, 480))
    ops = [o for o in spec["ops"] if o["t"] <= cut]
    cs = contests_of(spec["world"])
    world = spec["world"]
    knife = None
    if chance(rng, 0.45):
        # a knife-edge contest: every unit of one contest has reported in full and its counted margin is a hair away
        # from zero (inside the +-0.005 band the calls must push predictions out of)
        from nightsim.night import feed_row
        knife = choice(rng, cs)
        mem = [b for b in world["baseline"] if (f"{b['postal_code']}_{b['district']}" if world["district_election"] else b["postal_code"]) == knife]
        target = float(rng.uniform(-0.0049, 0.0049))
        tot_two = sum(world["truth"][b["geographic_unit_fips"]]["dem"] + world["truth"][b["geographic_unit_fips"]]["gop"] for b in mem)
        cur = sum(world["truth"][b["geographic_unit_fips"]]["dem"] - world["truth"][b["geographic_unit_fips"]]["gop"] for b in mem)
        shift = int(round((target * tot_two - cur) / 2.0))  # move `shift` votes from gop to dem (keeps two-party totals)
        for b in sorted(mem, key=lambda b: -(world["truth"][b["geographic_unit_fips"]]["dem"] + world["truth"][b["geographic_unit_fips"]]["gop"])):
            t = world["truth"][b["geographic_unit_fips"]]
            mv = max(-t["dem"], min(t["gop"], shift))
            t["dem"] += mv
            t["gop"] -= mv
            shift -= mv
            if shift == 0:
                break
        ops = [o for o in ops if not (o.get("u") in {b["geographic_unit_fips"] for b in mem})]
        for b in mem:
            t = world["truth"][b["geographic_unit_fips"]]
            ops.append(dict(t=round(cut, 3), k="deliver", u=b["geographic_unit_fips"], ver=99,
                            row=feed_row(b, dict(pev=100, dem=t["dem"], gop=t["gop"], turnout=max(t["turnout"], t["dem"] + t["gop"])))))
        spec["profile"]["model_parameters"]["turnout_factor_lower"] = 0.01
        spec["profile"]["model_parameters"]["turnout_factor_upper"] = 100.0
        spec["profile"]["model_parameters"].pop("unit_blocklist", None)
        spec["profile"]["model_parameters"].pop("postal_code_blocklist", None)
    # contests that exist only through a foreign unit already delivered (a new district, a state outside the election):
    # they are part of the contest table and may be called like any other
    present_foreign = []
    for o in ops:
        if o["k"] == "foreign":
            comps = o["u"].split("_")
            lab = f"{o['row']['postal_code']}_{comps[0]}" if world["district_election"] else o["row"]["postal_code"]
            if lab not in cs and lab not in present_foreign and (not world["district_election"] or "district" in p["aggregates"]):
                present_foreign.append(lab)
    lhs, rhs, stop = [], [], []
    for c in list(cs) + present_foreign:
        r = rng.random()
        if c == knife:
            r = r * 0.6  # always called, either side
        if r < 0.3:
            lhs.append(c)
        elif r < 0.6:
            rhs.append(c)
        if rng.random() < 0.3:
            stop.append(c)
    same_client = chance(rng, 0.5)
    seq = [dict(k="poll", role="no_calls", fresh_client=True),
           dict(k="poll", role="calls", fresh_client=not same_client, override=dict(lhs_called_contests=lhs, rhs_called_contests=rhs, stop_model_call=stop))]
    if same_client and chance(rng, 0.6):
        # operator history on one client: a poll WITH calls came first, then the calls are withdrawn -- the poll without
        # calls (the reference for the comparison) must not remember them
        seq = [dict(k="poll", role="warmup_calls", fresh_client=True, override=dict(lhs_called_contests=lhs, rhs_called_contests=rhs, stop_model_call=stop)),
               dict(k="poll", role="no_calls", fresh_client=False),
               dict(k="poll", role="calls", fresh_client=False, override=dict(lhs_called_contests=lhs, rhs_called_contests=rhs, stop_model_call=stop))]
    # invalid calls
    bad = choice(rng, ["both", "unknown_lhs", "unknown_rhs", "unknown_stop", None])
    if bad == "both" and cs:
        c = choice(rng, cs)
        seq.append(dict(k="poll", role="invalid", why=bad, fresh_client=True, override=dict(lhs_called_contests=lhs + [c], rhs_called_contests=[x for x in rhs if x != c] + [c], stop_model_call=stop)))
    elif bad and bad.startswith("unknown"):
        ghost = choice(rng, ["QQ", "QQ_1", cs[0] + "_77", cs[0].lower()])
        ov = dict(lhs_called_contests=list(lhs), rhs_called_contests=list(rhs), stop_model_call=list(stop))
        ov[{"unknown_lhs": "lhs_called_contests", "unknown_rhs": "rhs_called_contests", "unknown_stop": "stop_model_call"}[bad]].append(ghost)
        seq.append(dict(k="poll", role="invalid", why=bad, fresh_client=True, override=ov))
    for i, o in enumerate(seq):
        o["t"] = round(cut + 0.001 * (i + 1), 4)
    spec["ops"] = ops + seq
    return spec


class Checker(C.BaseChecker):
    PROP = PROP

    def __init__(self, spec):
        super().__init__(spec)
        self.plain = None

    def after_poll(self, ex, op, rec):
        st = ex.stats
        role = op.get("role")
        p = rec.profile
        if role == "warmup_calls":
            st.probes["calls_made_and_withdrawn_on_one_client"] += 1
            return []
        if role == "no_calls":
            self.plain = rec
            if rec.ok:
                # without any call or stop the model's own output is reported: nothing may sit exactly on a call threshold
                # unless the draws put it there (checked through the comparison below); remember for the shadow comparison
                pass
            return []
        if role == "invalid":
            st.evaluations += 1
            st.probes["invalid_call:" + op["why"]] += 1
            if self.plain is None or not self.plain.ok:
                return []
            st.state(("invalid", op["why"], ex.world["office"]), True)
            if rec.ok:
                return [self.v("invalid_call_accepted", f"contradictory/unknown call ({op['why']}: lhs={p['lhs_called_contests']}, rhs={p['rhs_called_contests']}, stop={p['stop_model_call']}) produced estimates",
                               why=op["why"])]
            if rec.exc_type != "elexmodel.models.BootstrapElectionModel.BootstrapElectionModelException":
                return [self.v("invalid_call_wrong_error", f"invalid call ({op['why']}) raised {rec.exc_type}: {rec.exc_msg}", why=op["why"])]
            return []
        if role != "calls" or self.plain is None:
            return []
        plain = self.plain
        st.evaluations += 1
        if not plain.ok:
            st.state(("plain_failed",), False)
            return []
        out = []
        lhs, rhs, stop = set(p["lhs_called_contests"]), set(p["rhs_called_contests"]), set(p["stop_model_call"])
        keys0 = R.aggregate_keys(ex.world["office"], "postal_code")
        modelled = {"_".join(str(r[k]) for k in keys0) for r in plain.tables["state_data"].to_dict("records")}
        ghosts = (lhs | rhs | stop) - modelled
        if ghosts:
            # a contest of the world that has no unit in the model's data yet (drop policy: nothing delivered there, e.g. a
            # state whose polls close later) is 'a contest that is not being modelled': naming it must raise
            st.probes["call_names_a_contest_without_data_yet"] += 1
            st.state(("ghost_contest", ex.world["office"]), True)
            if rec.ok:
                return [self.v("invalid_call_accepted", f"contests {sorted(ghosts)} have no unit in the data yet but naming them produced estimates", why="not_modelled_yet")]
            if rec.exc_type != "elexmodel.models.BootstrapElectionModel.BootstrapElectionModelException":
                return [self.v("invalid_call_wrong_error", f"naming contests without data {sorted(ghosts)} raised {rec.exc_type}: {rec.exc_msg}", why="not_modelled_yet")]
            return []
        if not rec.ok:
            return [self.v("valid_calls_failed", f"valid calls lhs={sorted(lhs)} rhs={sorted(rhs)} stop={sorted(stop)} made the run fail: {rec.exc_type}: {rec.exc_msg}")]
        keys = R.aggregate_keys(ex.world["office"], "postal_code")
        A, B = plain.tables["state_data"], rec.tables["state_data"]
        ia, ib = C.index_rows(A, keys), C.index_rows(B, keys)
        alphas = p["prediction_intervals"]
        nontrivial = False
        pattern = []
        for g in sorted(ib, key=str):
            label = "_".join(map(str, g))
            r = ib[g]
            r0 = ia.get(g)
            pm = C.fnum(r["pred_margin"])
            is_l, is_r, is_s = label in lhs, label in rhs, label in stop
            if r0 is not None:
                pm0 = C.fnum(r0["pred_margin"])
                lo0 = min(C.fnum(r0[f"lower_{a}_margin"]) for a in alphas)
                up0 = max(C.fnum(r0[f"upper_{a}_margin"]) for a in alphas)
                sign = ("+" if lo0 > 0 else "-" if lo0 < 0 else "0") + ("+" if pm0 > 0 else "-" if pm0 < 0 else "0") + ("+" if up0 > 0 else "-" if up0 < 0 else "0")
            else:
                pm0, lo0, up0, sign = None, None, None, "?"
            if is_l:
                pattern.append("L" + ("S" if is_s else "") + sign)
                if pm0 is not None and (pm0 < 0.005 or lo0 < 0):
                    nontrivial = True
                    st.probes["called_left_against_model"] += 1
                if pm0 is not None and 0 < pm0 < 0.005:
                    st.probes["called_left_with_model_margin_inside_band"] += 1
                if not pm >= 0.005:
                    out.append(self.v("call_not_honoured", f"{label} called for the left party but pred_margin={pm}", side="left", part="prediction"))
                for a in alphas:
                    lo = C.fnum(r[f"lower_{a}_margin"])
                    if not is_s and lo < 0:
                        out.append(self.v("call_not_honoured", f"{label} called for the left party but lower_{a}={lo}", side="left", part="bound"))
            elif is_r:
                pattern.append("R" + ("S" if is_s else "") + sign)
                if pm0 is not None and (pm0 > -0.005 or up0 > 0):
                    nontrivial = True
                    st.probes["called_right_against_model"] += 1
                if pm0 is not None and -0.005 < pm0 < 0:
                    st.probes["called_right_with_model_margin_inside_band"] += 1
                if not pm <= -0.005:
                    out.append(self.v("call_not_honoured", f"{label} called for the right party but pred_margin={pm}", side="right", part="prediction"))
                for a in alphas:
                    up = C.fnum(r[f"upper_{a}_margin"])
                    if not is_s and up > 0:
                        out.append(self.v("call_not_honoured", f"{label} called for the right party but upper_{a}={up}", side="right", part="bound"))
            elif is_s:
                pattern.append("S" + sign)
                if lo0 is not None and (lo0 > 0 or up0 < 0):
                    nontrivial = True
                    st.probes["stopped_while_model_would_call"] += 1
                for a in alphas:
                    lo, up = C.fnum(r[f"lower_{a}_margin"]), C.fnum(r[f"upper_{a}_margin"])
                    if not (lo <= 0 <= up):
                        out.append(self.v("stop_not_honoured", f"{label} is stop-listed and not called but its level {a} interval [{lo}, {up}] excludes zero"))
            else:
                if r0 is None:
                    out.append(self.v("row_set_changed", f"{label} present only with calls"))
                    continue
                d = C.diff_rows(r0, r, list(A.columns), rel=1e-12)
                if d:
                    out.append(self.v("uncalled_contest_changed", f"{label} is neither called nor stopped but {d[:3]} changed ({r0[d[0]]} -> {r[d[0]]}) when other contests were called",
                                      column=d[0].split("_")[0]))
        if set(ia) != set(ib):
            out.append(self.v("row_set_changed", f"contest rows differ with/without calls: {sorted(set(ia) ^ set(ib), key=str)[:3]}"))
        st.probes["pairs_with_calls" if (lhs or rhs or stop) else "pairs_without_any_call"] += 1
        st.state((ex.world["office"], min(len(ib), 6), tuple(sorted(pattern))[:6], len(alphas)), nontrivial)
        return out


def checker(spec):
    return Checker(spec)


def summarise(ex, stats):
    stats.sim_minutes = ex.spec.get("feed_stats", {}).get("sim_minutes", 0.0)
    stats.sample = C.sample_of(ex.spec, max_ops=3) | dict(polls=[{k: v for k, v in o.items() if k in ("role", "why", "override")} for o in ex.spec["ops"] if o["k"] == "poll"])
