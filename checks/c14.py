"""C14 -- enough reporting units means an estimate; too few means the dedicated error.

Trajectory check: the schedule delivers units one at a time and polls after every delivery around the boundary
n == minimum (and sparsely beyond), for swarm-chosen interval levels and all three estimators."""
import math

from checks import common as C
from nightsim import refmodels as R
from nightsim.night import feed_row, foreign_unit
from nightsim.profile import ALPHA_EDGE, make_profile
from nightsim.streams import chance, choice
from nightsim.world import make_world, world_signature

PROP = "C14"
PROP_NO = 14
LEVEL = "exploration"
MONITORS = ["nonparametric_intervals"]
SOLVER_SEAM = True  # recorder only: the number of rows of every quantile-regression fit
RULE = ("one evaluation = one poll on a trajectory that sweeps the number n of modelled reporting units upward through the "
        "estimator's minimum; distinct = distinct (estimator, max level bucket, n - minimum clipped to [-3, 8], duplicates); "
        "non-trivial = |n - minimum| <= 2 (the boundary itself) or a duplicate-id poll")
ASSUMPTIONS = [
    "the minimum is read from the real model object (get_minimum_reporting_units); n is counted by the reference model R1",
    "outlier models off; sampling of (alpha, n) along trajectories, not exhaustive enumeration (DESIGN.md section 8)",
]
REAL, STUBBED = C.REAL, C.STUBBED


def budget(tier):
    return dict(nights=130, wall_s=240) if tier == "quick" else dict(nights=1400, wall_s=1700)


def model_minimum(profile):
    from elexmodel.models.BootstrapElectionModel import BootstrapElectionModel
    from elexmodel.models.GaussianElectionModel import GaussianElectionModel
    from elexmodel.models.NonparametricElectionModel import NonparametricElectionModel

    cls = dict(nonparametric=NonparametricElectionModel, gaussian=GaussianElectionModel, bootstrap=BootstrapElectionModel)[profile["pi_method"]]
    ms = dict(features=list(profile["features"]), fixed_effects=profile["fixed_effects"])
    m = cls(ms)
    return max(m.get_minimum_reporting_units(a) for a in profile["prediction_intervals"])


def make_spec(st, idx, tier):
    rng = st.operator
    pi = choice(rng, ["nonparametric", "nonparametric", "nonparametric", "nonparametric", "gaussian", "gaussian", "bootstrap"])
    big = tier == "thorough" and chance(rng, 0.25)
    if pi == "nonparametric":
        if chance(rng, 0.4):
            alphas = [choice(rng, [0.5, 0.6, 0.7, 0.75, 0.8, 0.85, 0.9, 0.95] + ([0.98, 0.99] if big else []))]
        else:
            hi = 0.99 if big else 0.955
            alphas = [round(float(rng.uniform(0.05, hi)), int(rng.integers(1, 4)))]
            alphas = [a for a in alphas if 0 < a < 1] or [0.7]
        if chance(rng, 0.3):
            alphas.append(round(float(rng.uniform(0.05, alphas[0])), 2) or 0.1)
    else:
        alphas = [round(float(rng.uniform(0.05, 0.99)), 2) or 0.5 for _ in range(int(rng.integers(1, 3)))]
    alphas = list(dict.fromkeys(alphas))
    amax = max(alphas)
    need = math.ceil((1 + amax) / (1 - amax)) if pi == "nonparametric" else 10
    n_target = need + int(rng.integers(12, 40))
    wk = dict(offices=["G", "S"], unit_types=["precinct"], n_states=(1, 2), zero_baseline_frac=0.02,
              n_counties=(max(2, n_target // 16), max(3, n_target // 8)), n_units=(6, 12), max_units=max(n_target + 20, 40))
    for _ in range(30):
        world = make_world(st.world, wk)
        if len(world["baseline"]) >= n_target:
            break
    pk = dict(estimators=[pi], n_alphas=(1, 1), outlier_models_p=0.0, thresholds=[100], blocklist_p=0.15, B=(2, 12),
              fixed_effects_p=0.15, features_p=0.4, lambda_p=0.0, always_state=True, winsorize_p=0.0, tf_limits=[(0.5, 2.0), (0.2, 5.0)])
    profile = make_profile(rng, world, pk)
    profile["prediction_intervals"] = alphas
    if "unit" not in profile["aggregates"]:
        profile["aggregates"].append("unit")
    # the trajectory: every unit delivers its final result (100 %) in a seeded order; a few deliver a partial
    # count first; polls after every delivery in a window around the boundary
    order = [r["geographic_unit_fips"] for r in world["baseline"]]
    perm = st.release.permutation(len(order))
    order = [order[int(i)] for i in perm]
    base_by = {r["geographic_unit_fips"]: r for r in world["baseline"]}
    ops = []
    t = 0.0
    n_full = 0
    polls = 0
    lo, hi = need - 3, need + int(rng.integers(3, 9))
    max_polls = (8 if pi == "bootstrap" else 14) if tier == "quick" else (14 if pi == "bootstrap" else 30)
    sparse_every = int(rng.integers(6, 15))
    fserial = 0
    for f in order:
        t += float(st.release.exponential(4.0))
        tr = world["truth"][f]
        if chance(st.feed, 0.12):
            part = dict(pev=int(st.feed.integers(5, 95)), dem=tr["dem"] // 2, gop=tr["gop"] // 3, turnout=tr["turnout"] // 2)
            ops.append(dict(t=round(t, 3), k="deliver", u=f, ver=0, row=feed_row(base_by[f], part)))
            if chance(st.feed, 0.5):
                continue  # stays partial for the whole trajectory
            t += 1.0
        ops.append(dict(t=round(t, 3), k="deliver", u=f, ver=1, row=feed_row(base_by[f], dict(pev=100, dem=tr["dem"], gop=tr["gop"], turnout=tr["turnout"]))))
        n_full += 1
        if chance(st.feed, 0.04):
            fserial += 1
            row, info = foreign_unit(st.feed, world, fserial)
            ops.append(dict(t=round(t, 3), k="foreign", u=row["geographic_unit_fips"], row=row, info=info))
        if polls < max_polls and (lo <= n_full <= hi or (n_full > hi and (n_full - hi) % sparse_every == 0)):
            ops.append(dict(t=round(t + 0.5, 3), k="poll", role="trajectory", record_fits=True))
            polls += 1
    # operator churn on the SAME client object: the requested levels (and with them the minimum) change while the
    # trajectory runs -- e.g. a demanding level first, a lenient one later
    if pi == "nonparametric" and chance(rng, 0.5):
        poll_idx = [i for i, o in enumerate(ops) if o["k"] == "poll"]
        if len(poll_idx) >= 4:
            hi_a = choice(rng, [0.9, 0.95, 0.97]) if amax < 0.9 else round(min(0.985, amax + 0.02), 3)
            ops.insert(poll_idx[1], dict(t=ops[poll_idx[1]]["t"], k="operator", set=dict(prediction_intervals=[hi_a])))
            ops.insert(poll_idx[2] + 1, dict(t=ops[poll_idx[2] + 1]["t"], k="operator", set=dict(prediction_intervals=list(alphas))))
    elif pi != "nonparametric" and chance(rng, 0.4):
        poll_idx = [i for i, o in enumerate(ops) if o["k"] == "poll"]
        if len(poll_idx) >= 4:
            ops.insert(poll_idx[1], dict(t=ops[poll_idx[1]]["t"], k="operator", set=dict(pi_method="nonparametric", estimands=["turnout"], prediction_intervals=[0.93],
                                                                                      features=[f for f in profile["features"] if f != "baseline_normalized_margin"])))
            ops.insert(poll_idx[2] + 1, dict(t=ops[poll_idx[2] + 1]["t"], k="operator", set=dict(pi_method=pi, estimands=list(profile["estimands"]),
                                                                                              prediction_intervals=list(alphas), features=list(profile["features"]))))
    # one duplicate-id poll at the end (a reporting unit delivered twice as two rows)
    if chance(rng, 0.5) and n_full > 0:
        full = [o for o in ops if o["k"] == "deliver" and o["ver"] == 1]
        d = full[int(rng.integers(0, len(full)))]
        dup_row = dict(d["row"])
        if chance(rng, 0.5):
            # the second row is a corrected count of the same unit, not a byte-identical copy
            dup_row["results_turnout"] += 25
        ops.append(dict(t=round(t + 1, 3), k="dup", u=d["u"], ver=1, row=dup_row))
        ops.append(dict(t=round(t + 2, 3), k="poll", role="duplicate"))
    return dict(world=world, profile=profile, ops=ops, feed_stats=dict(sim_minutes=t), need_hint=need)


class Checker(C.BaseChecker):
    PROP = PROP

    def after_poll(self, ex, op, rec):
        st = ex.stats
        p = rec.profile
        units, info = R.categorise(ex.world, rec.rows, p)
        n = sum(1 for u in units.values() if u["reporting"] == 1)
        minimum = model_minimum(p)
        st.evaluations += 1
        out = []
        ids = [r["geographic_unit_fips"] for r in rec.rows]
        dup_ids = sorted({i for i in ids if ids.count(i) > 1}) if len(set(ids)) != len(ids) else []
        dup_reporting = [i for i in dup_ids if i in units and units[i]["reporting"] == 1]
        d = max(-3, min(8, int(math.floor(n - minimum)) if n < minimum else int(n - math.ceil(minimum))))
        if dup_ids:
            st.probes["poll_with_duplicate_ids"] += 1
            # a duplicated reporting row inflates the frame the gate counts; the statement: duplicates are rejected
            n_rows = n + sum(ids.count(i) - 1 for i in dup_reporting)
            if n_rows >= minimum and dup_reporting:
                st.probes["duplicate_of_a_reporting_unit_above_gate"] += 1
                if rec.ok or rec.exc_type != "elexmodel.client.ModelClientException":
                    out.append(self.v("duplicate_not_rejected", f"duplicate reporting ids {dup_reporting[:3]} were not rejected with ModelClientException: outcome {rec.exc_type or 'estimates'}",
                                      estimator=p["pi_method"]))
            st.state((p["pi_method"], "dup", d), True)
            return out
        gate = (not rec.ok) and rec.exc_type == "elexmodel.client.ModelNotEnoughSubunitsException"
        if n < minimum:
            st.probes["poll_below_minimum"] += 1
            if not gate:
                out.append(self.v("gate_missing", f"{n} modelled reporting units < minimum {minimum} but the outcome was {rec.exc_type or 'estimates'}: {rec.exc_msg}",
                                  estimator=p["pi_method"]))
        else:
            if n - minimum < 1:
                st.probes["poll_exactly_at_minimum"] += 1
            st.probes["poll_at_or_above_minimum"] += 1
            if gate:
                out.append(self.v("gate_spurious", f"{n} modelled reporting units >= minimum {minimum} but ModelNotEnoughSubunitsException was raised: {rec.exc_msg}",
                                  estimator=p["pi_method"]))
            elif rec.ok and p["pi_method"] != "bootstrap":
                # the split itself: at least one training unit, at least one calibration unit, the two disjoint and together
                # all reporting units, and a reachable quantile -- for every interval computation of the poll
                mon = rec.extra["mon"]
                bounds = [b for b in mon.get("interval_bounds", []) if "monitor_error" not in b]
                fits = rec.extra.get("fits", [])
                A = len(p["prediction_intervals"])
                for j, b in enumerate(bounds):
                    n_cal = len(b["conformalization"])
                    fi = (j // A) * (1 + 2 * A) + 1 + 2 * (j % A)
                    n_train = int(fits[fi]["x"].shape[0]) if fi < len(fits) and fits[fi].get("x") is not None else None
                    ids = b["conformalization"]["geographic_unit_fips"].tolist()
                    bad = None
                    if n_cal < 1:
                        bad = f"no calibration unit ({b['n_reporting']} reporting units, level {b['alpha']})"
                    elif n_train is not None and n_train < 1:
                        bad = f"no training unit ({b['n_reporting']} reporting units, level {b['alpha']})"
                    elif n_train is not None and n_train + n_cal != b["n_reporting"]:
                        bad = f"{b['n_reporting']} reporting units split into {n_train} training and {n_cal} calibration units at level {b['alpha']}: the two sets are not a partition"
                    elif len(set(ids)) != len(ids):
                        bad = "a unit appears twice in the calibration set"
                    elif p["pi_method"] == "nonparametric" and b["alpha"] * (1 + 1 / n_cal) > 1:
                        bad = f"{n_cal} calibration units cannot carry the quantile alpha(1+1/n_cal) = {b['alpha'] * (1 + 1 / n_cal):.4f} > 1"
                    if bad:
                        out.append(self.v("calibration_split", bad + f" (n - minimum = {n - minimum})", estimator=p["pi_method"], at_minimum=bool(n - minimum < 1)))
                        break
                    st.probes["calibration_split_checked"] += 1
                    if n_train == 1:
                        st.probes["split_with_a_single_training_unit"] += 1
            elif not rec.ok:
                out.append(self.v("not_completed", f"{n} modelled reporting units >= minimum {minimum} (levels {p['prediction_intervals']}) but the run failed: {rec.exc_type}: {rec.exc_msg}",
                                  estimator=p["pi_method"], exception=rec.exc_type.split(".")[-1], at_minimum=bool(n - minimum < 1)))
        amax = max(p["prediction_intervals"])
        st.state((p["pi_method"], min(9, int(amax * 10)), d), abs(n - minimum) <= 2)
        return out


def checker(spec):
    return Checker(spec)


def summarise(ex, stats):
    stats.sim_minutes = ex.spec.get("feed_stats", {}).get("sim_minutes", 0.0)
    stats.sample = C.sample_of(ex.spec)
