"""C05 -- with no covariates the model is uniform swing by the weighted median.  State invariant; oracle R4."""
import math

import numpy as np

from checks import common as C
from nightsim import refmodels as R
from nightsim.profile import profile_signature
from nightsim.world import world_signature

PROP = "C05"
PROP_NO = 5
LEVEL = "exploration"
RULE = ("one evaluation = one (poll, estimand) of a covariate-free night (no features, no fixed effects); distinct = distinct "
        "(estimator, estimand, number of reporting units bucket, median uniqueness, floor active); non-trivial = the "
        "weighted median is unique, there are >= 2 distinct residual values, and at least one nonreporting unit is predicted")
ASSUMPTIONS = [
    "compared exactly where the weighted median is unique (no cumulative normalised weight within 1e-12 of 0.5); otherwise the prediction must lie between the predictions of the two extreme medians",
    "rounding edge: pre-round value within 1e-6 of .5 => +-1 vote allowed",
    "outlier models off (they change the reporting set opaquely)",
]
REAL, STUBBED = C.REAL, C.STUBBED


def budget(tier):
    return dict(nights=260, wall_s=240) if tier == "quick" else dict(nights=9000, wall_s=1500)


WORLD = dict(offices=["G", "S", "H"], unit_types=["precinct", "precinct", "county"], n_states=(1, 3), n_counties=(2, 7),
             n_units=(2, 7), zero_baseline_frac=0.03)
PROFILE = dict(estimators=["nonparametric", "nonparametric", "gaussian"], features_p=0.0, fixed_effects_p=0.0, outlier_models_p=0.0,
               always_unit=True, lambda_p=0.0, thresholds=[100, 90, 60, 30, 100], max_estimands=3)
FEED = dict(p_loss=0.04, n_foreign=(0, 2), max_polls=4, poll_every=(30.0, 120.0), start_polls_after=150.0,
            surge_frac=0.06, boundary_frac=0.04, versions=(1, 4))


def make_spec(st, idx, tier):
    wk = dict(WORLD, prorated_p=0.3)
    if st.world.random() < 0.25:
        wk["equal_size"] = True  # ties in the weights -> non-unique medians are reachable
    spec = C.state_spec(st, tier, wk, PROFILE, FEED, min_units=24)
    spec["profile"]["features"] = []
    spec["profile"]["fixed_effects"] = []
    C.arrival_polls(st, spec)
    return spec


def weighted_median_set(res, w):
    """Returns (lo, hi, unique): the interval of minimisers of sum w_i |r_i - m|."""
    order = np.argsort(res, kind="stable")
    r, ww = res[order], w[order] / w.sum()
    cum = np.cumsum(ww)
    # first index whose cumulative weight reaches 0.5
    tie = np.where(np.abs(cum - 0.5) < 1e-12)[0]
    if len(tie) and tie[0] + 1 < len(r):
        k = int(tie[0])
        return float(r[k]), float(r[k + 1]), r[k] == r[k + 1]
    k = int(np.where(cum > 0.5)[0][0])
    return float(r[k]), float(r[k]), True


def expected_pred(m, w, partial):
    v = max(m * w + w, partial)
    return v


class Checker(C.BaseChecker):
    PROP = PROP

    def after_poll(self, ex, op, rec):
        st = ex.stats
        if not ex.table.unique_ids() or not rec.ok:
            return []
        p = rec.profile
        if p["features"] or p["fixed_effects"]:
            return []
        units, info = R.categorise(ex.world, rec.rows, p)
        ud = rec.tables.get("unit_data")
        if ud is None:
            return []
        utab, _ = C.unit_rows(ud)
        if set(utab) != set(units):
            return []
        out = []
        rep = [f for f in sorted(units) if units[f]["reporting"] == 1]
        non = [f for f in sorted(units) if units[f]["category"] == "expected" and not units[f]["reporting"]]
        if not rep or not non:
            return []
        for e in p["estimands"]:
            st.evaluations += 1
            w = np.array([units[f]["baseline"][f"baseline_{e}"] + 1 for f in rep], dtype=float)
            cnt = np.array([R.counted(units[f], e) for f in rep], dtype=float)
            res = (cnt - w) / w
            lo, hi, unique = weighted_median_set(res, w)
            floor_active = False
            for f in non:
                u = units[f]
                wi = float(u["baseline"][f"baseline_{e}"] + 1)
                part = float(R.counted(u, e))
                got = C.fnum(utab[f][f"pred_{e}"])
                a, b = expected_pred(lo, wi, part), expected_pred(hi, wi, part)
                if a == part or b == part:
                    floor_active = True
                ra, rb = round(min(a, b)), round(max(a, b))
                near_edge = any(abs((x % 1.0) - 0.5) < 1e-6 for x in (a, b))
                tol = 1 if near_edge else 0
                if not (ra - tol <= got <= rb + tol):
                    out.append(self.v("not_uniform_swing",
                                      f"unit {f}, estimand {e}: pred={got} but uniform swing with weighted median m in [{lo}, {hi}] gives "
                                      f"round(max(m*w+w, partial)) in [{ra}, {rb}] (w={wi}, partial={part}, n_reporting={len(rep)})",
                                      estimator=p["pi_method"], unique_median=bool(unique)))
                    break
            nontrivial = bool(unique) and len(set(res.tolist())) >= 2
            st.probes["median_unique" if unique else "median_not_unique"] += 1
            if ex.world.get("prorated"):
                st.probes["fractional_baseline_counts"] += 1
            if floor_active:
                st.probes["prediction_floored_at_partial_count"] += 1
            st.state((p["pi_method"], e, min(6, len(rep) // 10), bool(unique), floor_active, min(3, len(non) // 10),
                      world_signature(ex.world)[:3]), nontrivial)
        return out


def checker(spec):
    return Checker(spec)


def summarise(ex, stats):
    stats.sim_minutes = ex.spec.get("feed_stats", {}).get("sim_minutes", 0.0)
    stats.sample = C.sample_of(ex.spec)
