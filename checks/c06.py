"""C06 -- bootstrap intervals are ordered, nested by level, and margins stay in [-1, 1].

State invariant after every bootstrap poll + a knob monitor on the quantile ranks (B and alpha come from the swarm)."""
import math

from checks import common as C
from nightsim import refmodels as R
from nightsim.profile import profile_signature, ALPHA_EDGE
from nightsim.streams import chance, choice
from nightsim.world import world_signature

PROP = "C06"
PROP_NO = 6
LEVEL = "exploration"
MONITORS = ["bootstrap_quantiles"]
RULE = ("one evaluation = one completed bootstrap poll (all its unit rows, aggregate rows and captured quantile ranks); distinct = "
        "distinct (B bucket, levels bucket, office, aggregate set, fixed effects, calls present, lambda); non-trivial = the poll has "
        ">= 2 interval levels (so nesting is exercised) or B <= 5 or a level outside [0.1, 0.95]")
ASSUMPTIONS = [
    "groups that are called or stop-listed are exempt from strict ordering and nesting (the overrides are not monotone in the level; the statement grounds nesting in 'quantiles of the same draws')",
    "(alpha, B) are sampled by the swarm, not enumerated",
]
REAL, STUBBED = C.REAL, C.STUBBED


def budget(tier):
    return dict(nights=250, wall_s=240) if tier == "quick" else dict(nights=3000, wall_s=1700)


WORLD = dict(offices=["G", "S", "H", "H"], unit_types=["precinct", "precinct", "county"], n_states=(1, 3), n_counties=(2, 6),
             n_units=(2, 7), zero_baseline_frac=0.04)
PROFILE = dict(estimators=["bootstrap"], n_alphas=(1, 4), alpha_range=(0.02, 0.995), alpha_edge_p=0.35, always_unit=True,
               fixed_effects_p=0.3, blocklist_p=0.3)
FEED = dict(p_loss=0.04, n_foreign=(0, 3), max_polls=2, poll_every=(60.0, 200.0), start_polls_after=200.0, surge_frac=0.03, boundary_frac=0.05)


def contests_of(world):
    if world["district_election"]:
        return sorted({f"{r['postal_code']}_{r['district']}" for r in world["baseline"]})
    return sorted(world["states"])


def make_spec(st, idx, tier):
    spec = C.state_spec(st, tier, WORLD, PROFILE, FEED, min_units=30)
    p = spec["profile"]
    rng = st.operator
    p["model_parameters"]["B"] = int(choice(rng, [2, 2, 3, 4, 5, 7, 10, 20, 50, 101, 200])) if chance(rng, 0.7) else int(rng.integers(2, 300))
    if chance(rng, 0.3):
        cs = contests_of(spec["world"])
        for c in cs:
            r = rng.random()
            if r < 0.25:
                p["lhs_called_contests"].append(c)
            elif r < 0.5:
                p["rhs_called_contests"].append(c)
            if rng.random() < 0.25:
                p["stop_model_call"].append(c)
    return spec


class Checker(C.BaseChecker):
    PROP = PROP

    def after_poll(self, ex, op, rec):
        st = ex.stats
        p = rec.profile
        out = []
        B = p["model_parameters"].get("B", 500)
        for q in rec.extra["mon"].get("boot_quantiles", []):
            if "monitor_error" in q:
                continue
            lo, up = q["lower_q"], q["upper_q"]
            st.extra["quantile_rank_pairs_seen"] += 1
            if not (0 <= lo <= up <= 1):
                out.append(self.v("invalid_quantile_rank", f"level {q['alpha']} with B={q['B']}: ranks lower={lo}, upper={up} are not valid (0 <= lower <= upper <= 1)",
                                  B_small=q["B"] <= 5))
            if math.floor(lo * q["B"] * 2) < 0 or math.ceil(up * q["B"] * 2) > 2 * q["B"] - 1:
                out.append(self.v("invalid_summary_index", f"level {q['alpha']} with B={q['B']}: national-summary draw indices {math.floor(lo * q['B'] * 2)}, {math.ceil(up * q['B'] * 2)} outside 0..{2 * q['B'] - 1}"))
        if out or not rec.ok or not ex.table.unique_ids():
            return out
        st.evaluations += 1
        alphas = sorted(p["prediction_intervals"])
        called = set(p["lhs_called_contests"]) | set(p["rhs_called_contests"]) | set(p["stop_model_call"])
        ud = rec.tables.get("unit_data")
        if ud is not None:
            for r in ud.to_dict("records"):
                f = r["geographic_unit_fips"]
                for a in alphas:
                    lo, up = C.fnum(r[f"lower_{a}_margin"]), C.fnum(r[f"upper_{a}_margin"])
                    if not (lo <= up):
                        out.append(self.v("unit_bounds_disordered", f"unit {f}: lower_{a}={lo} > upper_{a}={up} (B={B})"))
                for a, b in zip(alphas, alphas[1:]):
                    if not (C.fnum(r[f"lower_{b}_margin"]) <= C.fnum(r[f"lower_{a}_margin"]) and C.fnum(r[f"upper_{a}_margin"]) <= C.fnum(r[f"upper_{b}_margin"])):
                        out.append(self.v("unit_not_nested", f"unit {f}: level {b} interval [{r[f'lower_{b}_margin']}, {r[f'upper_{b}_margin']}] does not contain level {a} interval "
                                                            f"[{r[f'lower_{a}_margin']}, {r[f'upper_{a}_margin']}] (B={B})"))
                        break
                if len(out) > 5:
                    break
        for agg in p["aggregates"]:
            if agg == "unit":
                continue
            name = R.TABLE_NAME[agg]
            df = rec.tables.get(name)
            if df is None:
                continue
            keys = R.aggregate_keys(ex.world["office"], agg)
            top = keys in (["postal_code"], ["postal_code", "district"])
            for r in df.to_dict("records"):
                g = tuple(r[k] for k in keys)
                label = "_".join(map(str, g))
                exempt = top and label in called
                pm, pt = C.fnum(r["pred_margin"]), C.fnum(r["pred_turnout"])
                if not (math.isfinite(pm) and abs(pm) <= 1 + 1e-12):
                    out.append(self.v("margin_out_of_range", f"{name}{g}: pred_margin={pm}", level=agg))
                if not (math.isfinite(pt) and pt >= 0):
                    out.append(self.v("turnout_negative", f"{name}{g}: pred_turnout={pt}", level=agg))
                if exempt:
                    st.probes["called_or_stopped_group_exempt"] += 1
                    continue
                for a in alphas:
                    lo, up = C.fnum(r[f"lower_{a}_margin"]), C.fnum(r[f"upper_{a}_margin"])
                    if not (lo < pm < up):
                        out.append(self.v("group_not_straddled", f"{name}{g}: level {a}: lower={lo}, pred={pm}, upper={up} (B={B})", level=agg))
                for a, b in zip(alphas, alphas[1:]):
                    if not (C.fnum(r[f"lower_{b}_margin"]) <= C.fnum(r[f"lower_{a}_margin"]) and C.fnum(r[f"upper_{a}_margin"]) <= C.fnum(r[f"upper_{b}_margin"])):
                        out.append(self.v("group_not_nested", f"{name}{g}: level {b} interval does not contain level {a} interval (B={B})", level=agg))
                        break
        mp = p["model_parameters"]
        nontrivial = len(alphas) >= 2 or B <= 5 or min(alphas) < 0.1 or max(alphas) > 0.95
        st.probes["B<=5" if B <= 5 else ("B<=20" if B <= 20 else "B>20")] += 1
        st.state((min(B, 6) if B <= 5 else (20 if B <= 20 else (100 if B <= 100 else 300)), len(alphas), round(min(alphas), 1), round(max(alphas), 1),
                  ex.world["office"], tuple(sorted(p["aggregates"])), bool(p["fixed_effects"]), bool(called), mp.get("lambda_", "cv")), nontrivial)
        return out


def checker(spec):
    return Checker(spec)


def summarise(ex, stats):
    stats.sim_minutes = ex.spec.get("feed_stats", {}).get("sim_minutes", 0.0)
    stats.sample = C.sample_of(ex.spec)
