"""C04 -- nonparametric intervals are conformally calibrated.

Clause 1 (calibration invariant): monitor on NonparametricElectionModel.get_unit_prediction_intervals; the reference
model R3 recomputes the correction from the exposed calibration frame and the unadjusted bounds.
Clause 2 (coverage): an *eventual* check against ground truth that only a simulator has: equal-size exchangeable
worlds, faults off, one poll at a random time of the night; the share of not-yet-reporting units whose FINAL TRUE
count lies inside the interval reported at that time, pooled over independent nights, must not fall below
alpha - sqrt(ln(1e9) / 2N) (Hoeffding)."""
import math

import numpy as np

from checks import common as C
from nightsim import refmodels as R
from nightsim.framework import NightExec, Stats, Violation, execute_spec
from nightsim.night import feed_row
from nightsim.profile import make_profile
from nightsim.streams import Streams, chance, choice
from nightsim.world import make_world

PROP = "C04"
PROP_NO = 4
LEVEL = "exploration"
MONITORS = ["nonparametric_intervals", "featurizer"]
SOLVER_SEAM = True  # no faults are injected here: the seam only records the fitted coefficients of every quantile regression
COV_ALPHAS = [0.5, 0.7, 0.9]
RULE = ("one evaluation = one captured nonparametric interval computation (poll x estimand x level) re-derived by R3, or one coverage "
        "night scored against ground truth; distinct = distinct (level bucket, robust, number of calibration units bucket, ties in "
        "scores, sign of the correction, floor active) resp. (alpha bucket, noise family, feature set, n reporting bucket); "
        "non-trivial = >= 3 calibration units with >= 2 distinct scores")
ASSUMPTIONS = [
    "clause 2 is statistical: per-night coverage scores are independent and bounded, their mean is >= alpha by the split-conformal guarantee (equal weights, exchangeable reporting order); the check alarms only below alpha - sqrt(ln(1e9)/(2N)), false-alarm probability <= 1e-9 per run; it detects gross miscalibration only",
    "coverage nights: equal baseline size, estimand turnout, no feed faults, outlier models off, turnout-factor limits wide, threshold 100",
    "clause 1 is exact: bounds compared as whole numbers, weighted share compared with '>'",
]
REAL, STUBBED = C.REAL, C.STUBBED


def budget(tier):
    return dict(nights=600, wall_s=240) if tier == "quick" else dict(nights=12000, wall_s=2400)


WORLD = dict(offices=["G", "S", "H"], unit_types=["precinct", "precinct", "county"], n_states=(1, 3), n_counties=(2, 7), n_units=(2, 9), zero_baseline_frac=0.02)
PROFILE = dict(estimators=["nonparametric"], outlier_models_p=0.05, n_alphas=(1, 3), alpha_range=(0.05, 0.97), max_estimands=2,
               thresholds=[100, 90, 60, 100], lambda_p=0.03)
FEED = dict(p_loss=0.03, n_foreign=(0, 1), max_polls=3, poll_every=(40.0, 150.0), start_polls_after=150.0, surge_frac=0.06)


def make_spec(st, idx, tier):
    if idx % 2 == 1:
        return make_coverage_spec(st, idx, tier)
    wk = dict(WORLD)
    if chance(st.world, 0.3):
        wk["equal_size"] = True  # ties in weights
    spec = C.state_spec(st, tier, wk, PROFILE, FEED, min_units=30)
    spec["kind"] = "calibration"
    for o in spec["ops"]:
        if o["k"] == "poll":
            o["record_fits"] = True
    return spec


def make_coverage_spec(st, idx, tier):
    alpha = COV_ALPHAS[(idx // 2) % len(COV_ALPHAS)]
    need = math.ceil((1 + alpha) / (1 - alpha))
    wk = dict(offices=["G"], unit_types=["precinct"], n_states=(1, 2), n_counties=(4, 9), n_units=(5, 12), zero_baseline_frac=0.0, equal_size=True,
              max_units=160)
    for _ in range(40):
        world = make_world(st.world, wk)
        if len(world["baseline"]) >= need + 25:
            break
    rng = st.operator
    feats = [f for f in ["x1", "x2"] if chance(rng, 0.5)]
    fes = ["county_classification"] if chance(rng, 0.2) else []
    profile = dict(pi_method="nonparametric", estimands=["turnout"], prediction_intervals=[alpha], threshold=100, aggregates=["postal_code", "unit"],
                   features=feats, fixed_effects=fes, handle_unreporting="drop", save_output=[], app_env="local",
                   lhs_called_contests=[], rhs_called_contests=[], stop_model_call=[],
                   model_parameters=dict(fit_margin_outlier_model=False, fit_turnout_outlier_model=False, turnout_factor_lower=0.001, turnout_factor_upper=1000.0,
                                         robust=bool(chance(rng, 0.3))))
    # reporting order = a seeded permutation (exchangeable); one poll after a random number of reports
    order = [r["geographic_unit_fips"] for r in world["baseline"]]
    perm = st.release.permutation(len(order))
    order = [order[int(i)] for i in perm]
    n_rep = int(st.sched.integers(need + 2, max(need + 3, len(order) - 8)))
    base_by = {r["geographic_unit_fips"]: r for r in world["baseline"]}
    ops = []
    for j, f in enumerate(order):
        tr = world["truth"][f]
        if j < n_rep:
            v = dict(pev=100, dem=tr["dem"], gop=tr["gop"], turnout=tr["turnout"])
        else:
            frac = float(st.release.uniform(0.0, 0.9))
            v = dict(pev=int(frac * 100), dem=int(tr["dem"] * frac), gop=int(tr["gop"] * frac), turnout=int(tr["turnout"] * frac))
        ops.append(dict(t=float(j), k="deliver", u=f, ver=0, row=feed_row(base_by[f], v)))
    ops.append(dict(t=float(len(order)), k="poll", role="coverage"))
    return dict(kind="coverage", alpha=alpha, world=world, profile=profile, ops=ops, feed_stats=dict(sim_minutes=float(len(order))))


def r3(scores, w, alpha, robust):
    n = len(scores)
    q = alpha * (1 + 1 / n)
    order = np.argsort(scores, kind="stable")
    s, ww = scores[order], (w / w.sum())[order]
    cum = np.cumsum(ww)
    idx = np.where(cum > q)[0]
    c_pop = float(s[idx].min()) if len(idx) else float("nan")
    c_q = float(np.quantile(scores, q)) if q <= 1 else float("nan")
    c = max(c_q, c_pop) if robust else c_pop
    return q, c_pop, c_q, c


class Checker(C.BaseChecker):
    PROP = PROP

    def after_poll(self, ex, op, rec):
        st = ex.stats
        if not rec.ok:
            return []
        out = []
        mon = rec.extra["mon"]
        bounds = [b for b in mon.get("interval_bounds", []) if "monitor_error" not in b]
        pis = mon.get("nonparametric_pi", [])
        if len(bounds) != len(pis):
            st.probes["monitor_unavailable"] += 1  # probe points renamed / removed in this tree: clause 1 cannot be evaluated
            return []
        fits = rec.extra.get("fits", [])
        holds = mon.get("feat_holdout", [])
        A = len(rec.profile["prediction_intervals"])
        for j, (b, cap) in enumerate(zip(bounds, pis)):
            if "monitor_error" in cap:
                st.probes["monitor_unavailable"] += 1
                continue
            st.evaluations += 1
            # the conformity scores must describe the SAME lower / upper models whose predictions are reported for the
            # outstanding units: recompute them from the fitted coefficients (solver seam) and the calibration design matrix
            base_i = (j // A) * (1 + 2 * A) + 1 + 2 * (j % A) if A else None
            if base_i is not None and len(fits) == len(holds) and base_i + 1 < len(fits) and fits[base_i].get("coef") is not None:
                Xc, Xn = holds[base_i]["out"].to_numpy(dtype=float), holds[base_i + 1]["out"].to_numpy(dtype=float)
                cl_, cu_ = np.asarray(fits[base_i]["coef"])[-1], np.asarray(fits[base_i + 1]["coef"])[-1]
                conf_ = cap["conformalization"]
                if Xc.shape[0] == len(conf_) and Xn.shape[0] == len(b["lower"]) and Xc.shape[1] == len(cl_):
                    res = conf_[f"residuals_{cap['estimand']}"].to_numpy(dtype=float)
                    want_l, want_u = Xc @ cl_ - res, res - Xc @ cu_
                    got_l, got_u = conf_["lower_bounds"].to_numpy(dtype=float), conf_["upper_bounds"].to_numpy(dtype=float)
                    if not (np.allclose(got_l, want_l, rtol=1e-9, atol=1e-9) and np.allclose(got_u, want_u, rtol=1e-9, atol=1e-9)):
                        i = int(np.argmax(np.abs(got_l - want_l) + np.abs(got_u - want_u)))
                        out.append(self.v("scores_not_of_reported_models", f"level {cap['alpha']}: calibration unit #{i} has scores (lower {got_l[i]}, upper {got_u[i]}) but the fitted lower / upper "
                                                                             f"quantile models give ({want_l[i]}, {want_u[i]}): the correction is computed for other intervals than the ones reported",
                                          robust=bool(cap["robust"])))
                    if not (np.allclose(b["lower"], Xn @ cl_, rtol=1e-9, atol=1e-9) and np.allclose(b["upper"], Xn @ cu_, rtol=1e-9, atol=1e-9)):
                        out.append(self.v("unadjusted_bounds_not_of_fitted_models", f"level {cap['alpha']}: unadjusted bounds of outstanding units differ from the fitted models' predictions",
                                          robust=bool(cap["robust"])))
                    st.probes["scores_recomputed_from_fitted_models"] += 1
                    if (Xn @ cl_ > Xn @ cu_).any() or (Xc @ cl_ > Xc @ cu_).any():
                        st.probes["lower_and_upper_quantile_fits_cross"] += 1
                else:
                    st.probes["score_recomputation_skipped_shape"] += 1
            else:
                st.probes["score_recomputation_skipped_index"] += 1
            alpha, e, robust = cap["alpha"], cap["estimand"], cap["robust"]
            conf = cap["conformalization"]
            wcol = f"last_election_results_{e}"
            lb, ub = conf["lower_bounds"].to_numpy(dtype=float), conf["upper_bounds"].to_numpy(dtype=float)
            w = conf[wcol].to_numpy(dtype=float)
            n_cal = len(conf)
            flags = dict(robust=bool(robust))
            if n_cal == 0:
                out.append(self.v("no_calibration_units", f"level {alpha}: empty calibration set with {cap['n_reporting']} reporting units", **flags))
                continue
            # calibration rows must not overlap the training rows: disjoint split of the reporting units
            ids = conf["geographic_unit_fips"].tolist()
            if len(set(ids)) != len(ids) or not set(ids) <= set(b["reporting_ids"]):
                out.append(self.v("calibration_set", "calibration units are not a duplicate-free subset of the reporting units", **flags))
            # held-out means held out: the rows the lower / upper models were fitted on and the calibration rows partition the
            # reporting units (the fit's row count comes from the solver seam)
            if base_i is not None and base_i < len(fits) and fits[base_i].get("x") is not None:
                n_fit_rows = int(fits[base_i]["x"].shape[0])
                if n_fit_rows + n_cal != cap["n_reporting"]:
                    out.append(self.v("calibration_set", f"level {alpha}: {cap['n_reporting']} reporting units, the interval models were fitted on {n_fit_rows} of them and {n_cal} are used "
                                                         f"for calibration: the calibration units are not held out", **flags))
            scores = np.maximum(lb, ub)
            q, c_pop, c_q, c = r3(scores, w, alpha, robust)
            if math.isnan(c):
                out.append(self.v("quantile_unreachable", f"level {alpha}, {n_cal} calibration units: alpha*(1+1/n_cal) = {q} cannot be exceeded", **flags))
                continue
            share = float((w / w.sum())[scores <= c].sum())
            if not share > q - 1e-12:
                out.append(self.v("reference_inconsistent", f"R3: share {share} <= q {q}"))
            non = cap["nonreporting"]
            wl = non[wcol].to_numpy(dtype=float)
            part = non[f"results_{e}"].to_numpy(dtype=float)
            # (A) the returned bounds are the unadjusted bounds widened by ONE correction c' (then un-normalised, floored at the
            #     partial count, rounded): recover the interval of c' values consistent with every unit on both sides
            got_lo, got_up = cap["lower"], cap["upper"]
            lo_c, hi_c = -np.inf, np.inf
            for arr, b_un, sign in ((got_lo, b["lower"], -1.0), (got_up, b["upper"], +1.0)):
                free = (arr > part) & (wl > 0)  # floor not binding: the rounded value determines c' up to +-0.5/w
                if free.any():
                    centre = sign * ((arr[free] - wl[free]) / wl[free] - b_un[free])
                    half = 0.5000001 / wl[free]
                    lo_c, hi_c = max(lo_c, float((centre - half).max())), min(hi_c, float((centre + half).min()))
                bound = (~free) & (wl > 0)  # floor binding: c' may be anything that keeps the widened bound at or below the count
                if bound.any():
                    lim = sign * ((part[bound] + 0.5000001 - wl[bound]) / wl[bound] - b_un[bound])
                    if sign < 0:
                        lo_c = max(lo_c, float(lim.max()))  # lower bound sits at the count: c' is at least this large
                    else:
                        hi_c = min(hi_c, float(lim.min()))  # upper bound sits at the count: c' is at most this large
            if lo_c > hi_c:
                out.append(self.v("not_a_single_correction", f"level {alpha} ({'robust' if robust else 'plain'}): no single correction explains the reported bounds of all outstanding units "
                                                             f"(needs c' >= {lo_c} and c' <= {hi_c})", **flags))
            elif np.isfinite(hi_c):
                # (B) with that correction the baseline-weighted share of calibration units inside their widened interval
                #     exceeds q; robust: the correction is also at least the unweighted q-quantile of the scores
                # same arithmetic as a cumulative weighted share over the scores in ascending order ("exceeds" is strict; an
                # exact tie share == q happens for equal weights, e.g. alpha = 0.5 with 3 calibration units)
                order_ = np.argsort(scores, kind="stable")
                cum_ = np.cumsum((w / w.sum())[order_])
                n_in = int((scores[order_] <= hi_c).sum())
                share_best = float(cum_[n_in - 1]) if n_in else 0.0
                tied_at_boundary = n_in >= 2 and scores[order_][n_in - 1] == scores[order_][n_in - 2]
                if not (share_best > q if not tied_at_boundary else share_best > q - 1e-12):
                    out.append(self.v("under_coverage", f"level {alpha}, {n_cal} calibration units: the applied correction (at most {hi_c}) covers a weighted share {share_best:.6f} of the calibration "
                                                        f"units, required more than q={q:.6f} (smallest admissible correction {c_pop})", bound="both", **flags))
                elif robust and not math.isnan(c_q) and hi_c < c_q - 1e-9:
                    out.append(self.v("under_coverage", f"level {alpha} (robust): applied correction at most {hi_c} is below the unweighted q-quantile {c_q} of the scores", bound="robust", **flags))
                if lo_c <= c <= hi_c:
                    st.probes["correction_is_the_smallest_admissible_one"] += 1
                elif c < lo_c:
                    st.probes["correction_larger_than_necessary"] += 1
            ties = len(set(scores.tolist())) < n_cal
            st.probes["correction_negative" if c < 0 else "correction_non_negative"] += 1
            if ties:
                st.probes["tied_scores"] += 1
            if robust and c_q > c_pop:
                st.probes["robust_quantile_larger_than_population_correction"] += 1
            floor_active = bool((np.maximum((b["lower"] - c) * wl + wl, part) == part).any() and (part > 0).any())
            st.state(("cal", round(alpha, 1), bool(robust), min(5, n_cal // 5), ties, c < 0, floor_active), n_cal >= 3 and len(set(scores.tolist())) >= 2)
        if op.get("role") == "coverage" and "unit_data" in rec.tables:
            a = ex.spec["alpha"]
            hit = tot = 0
            for r in rec.tables["unit_data"].to_dict("records"):
                if int(r["reporting"]) == 0 and r["unit_category"] == "expected":
                    truth = ex.world["truth"][r["geographic_unit_fips"]]["turnout"]
                    tot += 1
                    hit += 1 if C.fnum(r[f"lower_{a}_turnout"]) <= truth <= C.fnum(r[f"upper_{a}_turnout"]) else 0
            if tot:
                st.extra[f"cov:{a}:nights"] += 1
                st.extra[f"cov:{a}:score_micro"] += int(round(1e6 * hit / tot))
                st.state(("cov", a, ex.world["noise"], tuple(rec.profile["features"]), min(9, tot // 10)), True)
        return out


def checker(spec):
    return Checker(spec)


def coverage_verdict(n, score_sum_micro, alpha):
    mean = score_sum_micro / 1e6 / n
    slack = math.sqrt(math.log(1e9) / (2 * n))
    return mean, slack, mean >= alpha - slack


def run_custom(spec, stats):
    if spec.get("kind") == "coverage_batch":
        # replay form of a coverage failure: re-run the listed nights and re-evaluate the bound
        import importlib
        fam = importlib.import_module("checks.c04")
        n = s = 0
        for idx in spec["idxs"]:
            sp = make_spec(Streams(spec["seed"], PROP_NO, idx), idx, spec["tier"])
            if sp.get("kind") != "coverage" or sp["alpha"] != spec["alpha"]:
                continue
            st2 = Stats()
            ex = NightExec(sp, Checker(sp), st2)
            ex.run()
            n += st2.extra.get(f"cov:{spec['alpha']}:nights", 0)
            s += st2.extra.get(f"cov:{spec['alpha']}:score_micro", 0)
        stats.evaluations += n
        stats.state(("coverage_batch", spec["alpha"]), True)
        if n == 0:
            return [], "cov"
        mean, slack, ok = coverage_verdict(n, s, spec["alpha"])
        vs = [] if ok else [Violation(PROP, "coverage", f"level {spec['alpha']}: pooled coverage of not-yet-reporting units {mean:.4f} over {n} nights is below alpha - {slack:.4f}", dict(alpha=spec["alpha"]))]
        return vs, "cov"
    ex = NightExec(spec, Checker(spec), stats)
    vs = ex.run()
    stats.sim_minutes = spec.get("feed_stats", {}).get("sim_minutes", 0.0)
    stats.sample = C.sample_of(spec, max_ops=4) | dict(kind=spec.get("kind"))
    return vs, ex.digest()


def post_batch(seed, tier, results, extra_cov):
    viol = []
    report = {}
    for a in COV_ALPHAS:
        n = sum(r["stats"]["extra"].get(f"cov:{a}:nights", 0) for r in results.values())
        s = sum(r["stats"]["extra"].get(f"cov:{a}:score_micro", 0) for r in results.values())
        if n == 0:
            continue
        mean, slack, ok = coverage_verdict(n, s, a)
        report[str(a)] = dict(nights=n, pooled_coverage=round(mean, 4), required_at_least=round(a - slack, 4), hoeffding_slack=round(slack, 4))
        if not ok:
            idxs = sorted(i for i, r in results.items() if r["stats"]["extra"].get(f"cov:{a}:nights", 0))
            spec = dict(kind="coverage_batch", alpha=a, seed=seed, tier=tier, idxs=idxs, ops=[], property=PROP)
            viol.append((idxs[0], Violation(PROP, "coverage", f"level {a}: pooled coverage of not-yet-reporting units {mean:.4f} over {n} nights is below alpha - {slack:.4f}",
                                            dict(alpha=a)).to_dict(), spec))
    extra_cov["coverage_clause"] = report
    return viol
