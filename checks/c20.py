"""C20 -- a failed or inaccurate quantile-regression solve is retried, not fatal.

Fault enumeration: inside each sampled feed state a fault-free run counts the fits F made through fit_model; then
for EVERY fit index k < F and BOTH failure kinds one faulted run is made, next to a reference run in which fit k is
performed directly without weight normalisation and without a fault."""
import numpy as np

from checks import common as C
from nightsim import refmodels as R
from nightsim.profile import profile_signature
from nightsim.streams import chance, choice
from nightsim.world import world_signature

PROP = "C20"
PROP_NO = 20
LEVEL = "fault_enumeration"
SOLVER_SEAM = True
RULE = ("one evaluation = one faulted run (state, solve index k, failure kind) compared with its reference run and with the "
        "fault-free run; within each sampled state ALL fit indices x both kinds are enumerated; distinct = distinct (estimator, "
        "estimand count, level count, which fit (median / lower / upper), kind, lambda > 0); non-trivial = the fault actually fired "
        "(the solver seam counted it) on a state whose fault-free run produced estimates")
ASSUMPTIONS = [
    "fits made outside fit_model (outlier detector, bootstrap strata distributions) are not fault targets: the statement covers 'the median or an interval bound'",
    "equality with the reference run (fit k done directly with normalize_weights=False) is bit-for-bit; against the fault-free run only schema/keys and, for lambda = 0, equality of the weighted pinball objective (1e-9 relative) are demanded, because the LP can have several optimal vertices",
    "the inaccuracy warning is attributed to elexsolver's solver module (what the installed cvxpy does in a deployment: first frame outside cvxpy) and, as a second kind, to cvxpy.problems.problem (older cvxpy); the library's own filters must turn both into an exception and a retry",
]
REAL = C.REAL
STUBBED = C.STUBBED + ["solver failure: QuantileRegressionSolver subclass that fails the k-th fit once (real solver otherwise)"]


def budget(tier):
    return dict(nights=36, wall_s=240) if tier == "quick" else dict(nights=650, wall_s=1700)


WORLD = dict(offices=["G", "S", "H"], unit_types=["precinct", "county"], n_states=(1, 2), n_counties=(3, 6), n_units=(3, 7), zero_baseline_frac=0.02)
PROFILE = dict(estimators=["nonparametric", "gaussian"], winsorize_p=0.0, outlier_models_p=0.0, n_alphas=(1, 2), max_estimands=2,
               lambda_p=0.3, thresholds=[100, 90, 60], fixed_effects_p=0.25)
FEED = dict(p_loss=0.02, n_foreign=(0, 1), max_polls=0)


def make_spec(st, idx, tier):
    spec = C.state_spec(st, tier, WORLD, PROFILE, FEED, min_units=30)
    cut = float(st.sched.uniform(260, 480))
    ops = [o for o in spec["ops"] if o["t"] <= cut]
    p = spec["profile"]
    F = len(p["estimands"]) * (1 + 2 * len(p["prediction_intervals"]))
    seq = [dict(k="poll", role="base", record_fits=True, fresh_client=True)]
    for k in range(F):
        seq.append(dict(k="poll", role="reference", solver_ref_at=k, fit_index=k, fresh_client=True))
        for kind in ("solver_error", "inaccurate_warning", "inaccurate_warning_legacy"):
            seq.append(dict(k="poll", role="fault", solver_fault=dict(at=k, kind=kind, record=True), fit_index=k, fresh_client=True))
    seq.append(dict(k="poll", role="after_faults", record_fits=True, fresh_client=bool(st.solver.random() < 0.5)))
    for i, o in enumerate(seq):
        o["t"] = round(cut + 0.001 * (i + 1), 4)
    spec["ops"] = ops + seq
    spec["n_fits_expected"] = F  # upper bound on the number of single-quantile solves; indices beyond the real count are skipped
    return spec


def pinball(x, y, w, tau, coef):
    r = y - x @ coef
    return float(np.sum(w * (0.5 * np.abs(r) + (tau - 0.5) * r)))


DEFAULTS = dict(taus=0.5, weights=None, lambda_=0.0, fit_intercept=True, regularize_intercept=False, n_feat_ignore_reg=0, normalize_weights=True)
POS = ["taus", "weights", "lambda_", "fit_intercept", "regularize_intercept", "n_feat_ignore_reg", "normalize_weights"]


def effective(call):
    kw = dict(DEFAULTS)
    for name, v in zip(POS, call.get("args", ())):
        kw[name] = v
    unknown = [k for k in call["kwargs"] if k not in DEFAULTS]
    kw.update(call["kwargs"])
    return kw, unknown


def same(a, b):
    if isinstance(a, np.ndarray) or isinstance(b, np.ndarray):
        return a is not None and b is not None and np.array_equal(np.asarray(a), np.asarray(b))
    return a == b


class Checker(C.BaseChecker):
    PROP = PROP

    def __init__(self, spec):
        super().__init__(spec)
        self.base = None
        self.ref = {}

    def should_skip(self, ex, op):
        # solve indices beyond the solves the fault-free run makes have nothing to fail
        # (if the seam saw no solve at all -- the models no longer look the solver class up where it is installed -- every
        # fault poll is skipped and the evidence shows 'solves_in_fault_free_run:0')
        return op.get("fit_index") is not None and self.base is not None and self.base.ok and op["fit_index"] >= self.base.extra["n_solves"]

    def after_poll(self, ex, op, rec):
        st = ex.stats
        role = op.get("role")
        p = rec.profile
        if role == "base":
            self.base = rec
            st.probes["base_ok" if rec.ok else "base_failed"] += 1
            st.probes["solves_in_fault_free_run:%d" % min(rec.extra["n_solves"], 12)] += 1
            return []
        if self.base is None or not self.base.ok:
            return []
        if role == "after_faults":
            # history: earlier failed solves in this process must leave nothing behind
            st.evaluations += 1
            st.probes["fault_free_poll_after_faults"] += 1
            if rec.digest != self.base.digest:
                bf, af = self.base.extra["fits"], rec.extra["fits"]
                why = "tables differ"
                if len(bf) == len(af):
                    for i, (x, y) in enumerate(zip(bf, af)):
                        ex_, _ = effective(x)
                        ey_, _ = effective(y)
                        d = [n for n in ("taus", "lambda_", "fit_intercept", "normalize_weights") if not same(ex_[n], ey_[n])]
                        if d:
                            why = f"fit #{i} now uses {d[0]}={ey_[d[0]]!r} (fault-free run before the faults: {ex_[d[0]]!r})"
                            break
                return [self.v("state_left_behind", f"a fault-free poll after the faulted polls differs from the fault-free poll before them: {why}", estimator=p["pi_method"])]
            return []
        k = op["fit_index"]
        if role == "reference":
            self.ref[k] = rec
            return []
        if role != "fault":
            return []
        kind = op["solver_fault"]["kind"]
        st.evaluations += 1
        fits = rec.extra["fits"]
        fired = any(c.get("raised") for c in fits)
        fi = next((i for i, c in enumerate(fits) if c.get("raised")), None)
        which = "?"
        if fi is not None:
            ef_, _ = effective(fits[fi])
            taus_ = list(np.atleast_1d(ef_["taus"]))
            pos_in_call = k - fits[fi]["first_solve"]
            tau_k = float(taus_[pos_in_call]) if 0 <= pos_in_call < len(taus_) else 0.5
            which = "median" if tau_k == 0.5 else ("lower" if tau_k < 0.5 else "upper")
        lam = p["model_parameters"].get("lambda_", 0) > 0
        st.probes["fault_fired:" + kind if fired else "fault_not_fired"] += 1
        st.state((p["pi_method"], len(p["estimands"]), len(p["prediction_intervals"]), which, kind, lam), fired)
        out = []
        flags = dict(kind=kind, which=which, estimator=p["pi_method"])
        if not fired:
            return []  # nothing was injected (counted as probe 'fault_not_fired'): no verdict for this run
        # (i) the run completes
        if not rec.ok:
            return [self.v("not_completed", f"{kind} at solve #{k} ({which}) was fatal: {rec.exc_type}: {rec.exc_msg}", exception=rec.exc_type.split(".")[-1], **flags)]
        # (ii) the retry: next call, same solver object, same arguments, no weight normalisation
        if len(fits) <= fi + 1 or len(fits) == len(self.base.extra["fits"]):
            return [self.v("no_retry", f"{kind} at solve #{k} ({which}): the fit was not re-run (the run made {len(fits)} fit calls, exactly as many as the fault-free run): "
                                       f"the reported failure was ignored and its solution used", **flags)]
        a, b = fits[fi], fits[fi + 1]
        k_solve, k = k, fi  # from here on k indexes fit CALLS
        ea, ua = effective(a)
        eb, ub = effective(b)
        if ub:
            out.append(self.v("retry_arguments", f"retry passes unknown arguments {ub}", **flags))
        if a["obj"] != b["obj"]:
            st.probes["retry_on_another_solver_object"] += 1  # allowed: the statement fixes the arguments of the retry, not the object
        if not (np.array_equal(a["x"], b["x"]) and np.array_equal(a["y"], b["y"])):
            out.append(self.v("retry_arguments", f"retry after fit #{k} used different X / y", **flags))
        for name in ("taus", "weights", "lambda_", "fit_intercept", "regularize_intercept", "n_feat_ignore_reg"):
            if not same(ea[name], eb[name]):
                out.append(self.v("retry_arguments", f"retry after fit #{k} ({which}): {name} = {eb[name]!r}, the failed attempt used {ea[name]!r}", argument=name, **flags))
        if eb["normalize_weights"] is not False:
            out.append(self.v("retry_normalizes", f"retry after fit #{k} still normalises the weights", **flags))
        if len(fits) != len(self.base.extra["fits"]) + 1:
            out.append(self.v("fit_count", f"faulted run made {len(fits)} fit calls, the fault-free run {len(self.base.extra['fits'])} (expected exactly one retry more)", **flags))
        else:
            # every other fit of the run is made exactly as in the fault-free run (the failure must not leave state behind)
            bfits = self.base.extra["fits"]
            for i, bc in enumerate(bfits):
                fc = fits[i if i <= k else i + 1]
                eb0, _ = effective(bc)
                ef0, _ = effective(fc)
                diff = [n for n in ("taus", "weights", "lambda_", "fit_intercept", "normalize_weights") if not same(eb0[n], ef0[n])]
                if diff or not (np.array_equal(bc["x"], fc["x"]) and np.array_equal(bc["y"], fc["y"])):
                    st.probes["another_fit_of_the_run_made_differently_after_the_failure"] += 1
                    # a violation only if it shows in the tables (they are compared with the reference run below); with
                    # lambda = 0 un-normalised weights give the same solution and the statement ("the same tables") holds
                    if self.ref.get(k_solve) is not None and self.ref[k_solve].ok and self.ref[k_solve].digest != rec.digest:
                        out.append(self.v("later_fit_changed", f"after the failure at fit #{k}, fit #{i} is made with different arguments than in the fault-free run: {diff or ['X/y']} "
                                                                f"(e.g. {diff[0]}: {ef0[diff[0]]!r} vs {eb0[diff[0]]!r})" if diff else f"fit #{i} got different X/y", later=bool(i > k), **flags))
                    break
        # (iii) same tables as the reference run (fit k done directly without normalisation)
        ref = self.ref.get(k_solve)
        if ref is None or not ref.ok:
            out.append(self.v("harness_reference", f"reference run for solve {k_solve} missing or failed: {ref.exc_msg if ref else None}", **flags))
        elif ref.digest != rec.digest:
            msg = "tables differ"
            for name in sorted(ref.tables):
                A, B = ref.tables[name], rec.tables.get(name)
                if B is None or list(A.columns) != list(B.columns) or len(A) != len(B):
                    msg = f"{name}: shape/columns differ"
                    break
                for x, y in zip(A.to_dict("records"), B.to_dict("records")):
                    d = C.diff_rows(x, y, list(A.columns))
                    if d:
                        msg = f"{name}: {d[0]} = {y[d[0]]} after the retry, {x[d[0]]} when that fit is done directly without normalisation"
                        break
                else:
                    continue
                break
            out.append(self.v("differs_from_reference", f"{kind} at fit #{k} ({which}): {msg}", **flags))
        # (iv) against the fault-free run: schema and keys; lambda = 0: same objective value
        base = self.base
        for name in sorted(base.tables):
            A, B = base.tables[name], rec.tables.get(name)
            if B is None or list(A.columns) != list(B.columns) or len(A) != len(B):
                out.append(self.v("schema_differs", f"{name}: schema differs from the fault-free run", **flags))
                continue
            keys = C.table_keys(ex.world, name)
            if C.key_tuples(A, keys) != C.key_tuples(B, keys):
                out.append(self.v("schema_differs", f"{name}: keys differ from the fault-free run", **flags))
        if not lam and b.get("coef") is not None and base.extra["fits"][k].get("coef") is not None and len(np.atleast_1d(ea["taus"])) == 1:
            c_retry = np.asarray(b["coef"])[-1]
            c_base = np.asarray(base.extra["fits"][k]["coef"])[-1]
            w = np.asarray(ea["weights"], dtype=float)
            tau = float(np.atleast_1d(ea["taus"])[0])
            o1, o2 = pinball(a["x"], a["y"], w, tau, c_retry), pinball(a["x"], a["y"], w, tau, c_base)
            if not C.close(o1, o2, rel=1e-7, abs_=1e-9 * max(1.0, float(np.sum(w)))):
                out.append(self.v("retry_not_optimal", f"fit #{k} ({which}, tau={tau}): retried solution has weighted pinball loss {o1}, the fault-free solution {o2}", **flags))
            if not np.array_equal(c_retry, c_base):
                st.probes["retry_found_another_optimal_vertex"] += 1
        return out


def checker(spec):
    return Checker(spec)


def summarise(ex, stats):
    stats.sim_minutes = ex.spec.get("feed_stats", {}).get("sim_minutes", 0.0)
    stats.sample = C.sample_of(ex.spec, max_ops=3) | dict(
        n_fits=ex.spec.get("n_fits_expected"),
        fault_polls=[{k: v for k, v in o.items() if k in ("role", "solver_fault", "solver_ref_at", "fit_index")} for o in ex.spec["ops"] if o["k"] == "poll"][:7])
