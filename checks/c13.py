"""C13 -- what is reported for one request does not depend on what else was requested.

Transition between shadow polls over the same complete feed state with different request sets (subsets and orders
of interval levels, aggregate levels, vote-count estimands)."""
import copy

from checks import common as C
from nightsim import refmodels as R
from nightsim.night import feed_row, unit_versions, DEFAULT_FEED_KNOBS
from nightsim.profile import make_profile, profile_signature
from nightsim.streams import chance, choice
from nightsim.world import make_world, world_signature

PROP = "C13"
PROP_NO = 13
LEVEL = "exploration"
RULE = ("one evaluation = one (reference poll, variant poll) pair over the same complete feed state; distinct = distinct "
        "(estimator, office, what was varied: levels / aggregates / estimands / order, sizes of the request sets); non-trivial = "
        "both polls produced estimates and share at least one (table, column) cell family besides the keys")
ASSUMPTIONS = [
    "complete feeds only (every baseline unit has a feed row), as the statement requires; vote-count estimands for the conformal estimators, margin for bootstrap",
    "cells compared bit-for-bit (bootstrap: 1e-9 relative, BLAS summation order)",
]
REAL, STUBBED = C.REAL, C.STUBBED


def budget(tier):
    return dict(nights=150, wall_s=240) if tier == "quick" else dict(nights=2600, wall_s=1700)


WORLD = dict(offices=["G", "S", "H", "H"], unit_types=["precinct", "precinct", "county"], n_states=(1, 3), n_counties=(2, 6),
             n_units=(2, 7), zero_baseline_frac=0.03)
PROFILE = dict(estimators=["nonparametric", "nonparametric", "gaussian", "gaussian", "bootstrap"], B=(2, 20), winsorize_p=0.0,
               n_alphas=(2, 4), max_estimands=3, agg_subset=False, outlier_models_p=0.1)


def variants(rng, profile, n):
    out = []
    for _ in range(n):
        ov = {}
        what = []
        a = list(profile["prediction_intervals"])
        if chance(rng, 0.6) and len(a) > 1:
            keep = [x for x in a if chance(rng, 0.5)] or [choice(rng, a)]
            perm = rng.permutation(len(keep))
            ov["prediction_intervals"] = [keep[int(i)] for i in perm]
            what.append("levels")
        g = list(profile["aggregates"])
        if chance(rng, 0.6):
            keep = [x for x in g if chance(rng, 0.6)]
            if profile["pi_method"] == "bootstrap" and "postal_code" not in keep:
                keep.insert(0, "postal_code")
            if not keep:
                keep = [choice(rng, g)]
            perm = rng.permutation(len(keep))
            keep = [keep[int(i)] for i in perm]
            if profile["pi_method"] == "bootstrap":
                keep = ["postal_code"] + [x for x in keep if x != "postal_code"]
            ov["aggregates"] = keep
            what.append("aggregates")
        e = list(profile["estimands"])
        if len(e) > 1 and chance(rng, 0.7):
            keep = [x for x in e if chance(rng, 0.5)] or [choice(rng, e)]
            perm = rng.permutation(len(keep))
            ov["estimands"] = [keep[int(i)] for i in perm]
            what.append("estimands")
        if not ov:
            ov["prediction_intervals"] = list(reversed(a))
            what.append("order")
        out.append((ov, what))
    return out


def make_spec(st, idx, tier):
    if idx % 6 == 5:
        return make_historical_spec(st, idx, tier)
    big = idx % 6 == 5
    wk = dict(WORLD, n_states=(1, 2), n_counties=(8, 14), n_units=(14, 28), max_units=600, offices=["G", "S"]) if big else WORLD
    for _ in range(20):
        world = make_world(st.world, wk)
        if len(world["baseline"]) >= (250 if big else 30):
            break
    profile = make_profile(st.operator, world, dict(PROFILE, estimators=["gaussian", "nonparametric"], fixed_effects_p=0.0) if big else PROFILE)
    if big:
        # many reporting units and two levels less than 0.01 apart that agree to two decimals: the quantile fits differ,
        # the requests are distinct, and anything keyed by a rounded level would conflate them
        k = int(st.operator.integers(60, 99))
        profile["prediction_intervals"] = [round(k / 100 - 0.0049, 4), round(k / 100 + 0.0049, 4)] + profile["prediction_intervals"][2:]
        profile["threshold"] = 100
    if profile["pi_method"] == "bootstrap":
        profile["aggregates"] = ["postal_code"] + [a for a in profile["aggregates"] if a != "postal_code"]
    if (profile["model_parameters"].get("fit_turnout_outlier_model") or profile["model_parameters"].get("fit_margin_outlier_model")) and "unit" not in profile["aggregates"]:
        profile["aggregates"].append("unit")
    k = dict(DEFAULT_FEED_KNOBS, versions=(1, 4), surge_frac=0.03, boundary_frac=0.05)
    mp = profile["model_parameters"]
    tf = (mp.get("turnout_factor_lower", 0.5), mp.get("turnout_factor_upper", 2.0))
    ops = []
    progress = float(st.sched.uniform(0.75, 0.95)) if big else float(st.sched.uniform(0.35, 1.0))
    for b in world["baseline"]:
        f = b["geographic_unit_fips"]
        vs, _ = unit_versions(st.release, world["truth"][f], b, k, profile["threshold"], tf)
        # complete feed: every unit has a row; how far along it is depends on the night's progress
        j = len(vs) - 1 if st.release.random() < progress else int(st.release.integers(0, len(vs)))
        ops.append(dict(t=1.0, k="deliver", u=f, ver=j, row=feed_row(b, vs[j])))
    perm = st.feed.permutation(len(ops))
    ops = [ops[int(i)] for i in perm]
    ops.append(dict(t=2.0, k="poll", role="reference", fresh_client=True))
    nv = 3 if tier == "quick" else 5
    for ov, what in variants(st.shadow, profile, nv):
        ops.append(dict(t=3.0, k="poll", role="variant", override=ov, what=what, fresh_client=bool(st.shadow.random() < 0.5)))
    return dict(world=world, profile=profile, ops=ops, feed_stats=dict(sim_minutes=3.0))


class Checker(C.BaseChecker):
    PROP = PROP

    def __init__(self, spec):
        super().__init__(spec)
        self.ref = None

    def after_poll(self, ex, op, rec):
        st = ex.stats
        out = []
        if rec.ok:
            # key and category columns present under their own names, whatever the number of estimands
            for name, df in rec.tables.items():
                want = C.table_keys(ex.world, name) + (["unit_category"] if name == "unit_data" else []) + ["reporting"]
                miss = [c for c in want if c not in df.columns]
                if miss:
                    out.append(self.v("key_or_category_column_missing", f"{name} (estimands {rec.profile['estimands']}) lacks {miss}; columns: {[c for c in df.columns if c.split('_')[0] not in ('lower', 'upper', 'pred', 'results')]}",
                                      table=("unit_data" if name == "unit_data" else "aggregate"), n_estimands=min(2, len(rec.profile["estimands"]))))
        if op.get("role") == "reference":
            self.ref = rec
            return out
        if self.ref is None or op.get("role") != "variant":
            return out
        ref = self.ref
        st.evaluations += 1
        pi = rec.profile["pi_method"]
        what = tuple(op.get("what", []))
        if not ref.ok:
            st.state(("ref_failed", pi), False)
            return out
        if not rec.ok:
            out.append(self.v("variant_failed", f"the full request produced estimates but the request {op['override']} failed: {rec.exc_type}: {rec.exc_msg}",
                              estimator=pi, varied=what))
            return out
        rel = 1e-9 if pi == "bootstrap" else None
        shared = 0
        for name in sorted(set(ref.tables) & set(rec.tables)):
            A, B = ref.tables[name], rec.tables[name]
            keys = C.table_keys(ex.world, name)
            if any(k not in A.columns or k not in B.columns for k in keys):
                continue
            ia, ib = C.index_rows(A, keys), C.index_rows(B, keys)
            if set(ia) != set(ib):
                out.append(self.v("row_set_depends_on_request", f"{name}: rows differ between requests: {sorted(set(ia) ^ set(ib), key=str)[:3]}",
                                  estimator=pi, varied=what))
                continue
            cols = [c for c in A.columns if c in B.columns and c not in keys]
            shared += len(cols)
            for k in sorted(ia, key=str):
                d = C.diff_rows(ia[k], ib[k], cols, rel=rel)
                if d:
                    out.append(self.v("depends_on_request", f"{name}{k}: {d[:3]} = {ia[k][d[0]]} with the full request but {ib[k][d[0]]} with {op['override']}",
                                      estimator=pi, varied=what, column=d[0].split("_")[0]))
                    break
        st.probes["varied:" + "+".join(what)] += 1
        st.probes["estimator:" + pi] += 1
        st.state((pi, ex.world["office"], what, len(ref.profile["prediction_intervals"]), len(ref.profile["estimands"]),
                  len(rec.profile["aggregates"])), shared > 0)
        return out


def checker(spec):
    return Checker(spec)


# ------------------------------------------------------------------ historical evaluations


def make_historical_spec(st, idx, tier):
    from checks import c10 as H

    spec = H.make_historical_spec(st, idx, tier)
    rng = st.shadow
    spec["kind"] = "historical_request"
    all_e = ["dem", "gop", "turnout"]
    perm = [all_e[int(i)] for i in rng.permutation(3)]
    spec["profile"]["estimands"] = perm[: int(rng.integers(2, 4))]
    spec["profile"]["aggregates"] = ["postal_code", "county_fips"] + (["unit"] if chance(rng, 0.7) else [])
    spec["profile"]["prediction_intervals"] = [0.7, 0.9] if chance(rng, 0.5) else [0.8]
    return spec


def run_historical(spec, stats):
    """The same historical evaluation with the full estimand list and with each estimand alone: what is reported for an
    estimand is the same either way, and the counted votes of reporting units are that estimand's own stored results."""
    from checks import c10 as H
    from nightsim.framework import Violation

    world, p = spec["world"], spec["profile"]
    o_full, t_full = H.historical_evaluation(spec, spec["hist"])
    stats.polls += 1
    stats.evaluations += 1
    out = []
    if o_full != "ok":
        stats.repo_errors[o_full.split(":")[0]] += 1
        stats.state(("historical_failed", p["pi_method"]), False)
        return out, "hist"
    stats.polls_ok += 1
    hist = {r["geographic_unit_fips"]: r for r in spec["hist"]}
    live = {r["geographic_unit_fips"]: r for r in spec["live"]}
    ud = t_full.get("unit_data")
    if ud is not None:
        for r in ud.to_dict("records"):
            f = r["geographic_unit_fips"]
            if f in hist and f in live and live[f]["percent_expected_vote"] >= p["threshold"]:
                for e in p["estimands"]:
                    if C.fnum(r[f"results_{e}"]) != float(hist[f][f"results_{e}"]):
                        out.append(Violation(PROP, "historical_counts_of_another_estimand", f"unit {f}: results_{e}={r[f'results_{e}']} in the evaluation of {p['estimands']}, "
                                                                                           f"the stored historical result is {hist[f][f'results_{e}']}", dict(estimator=p["pi_method"], n_estimands=len(p["estimands"]))))
                        break
                if out:
                    break
    shared = 0
    for e in p["estimands"]:
        o1, t1 = H.historical_evaluation(spec, spec["hist"], dict(p, estimands=[e]))
        stats.polls += 1
        if o1 != "ok":
            out.append(Violation(PROP, "variant_failed", f"historical evaluation of {p['estimands']} produced estimates, of [{e!r}] alone failed: {o1}", dict(estimator=p["pi_method"], varied=["estimands"])))
            continue
        stats.polls_ok += 1
        for name in sorted(set(t_full) & set(t1)):
            A, B = t_full[name], t1[name]
            keys = C.table_keys(world, name)
            if any(k not in A.columns or k not in B.columns for k in keys):
                continue
            ia, ib = C.index_rows(A, keys), C.index_rows(B, keys)
            if set(ia) != set(ib):
                out.append(Violation(PROP, "row_set_depends_on_request", f"{name}: rows differ between the historical evaluations of {p['estimands']} and [{e!r}]", dict(estimator=p["pi_method"], varied=["estimands"])))
                continue
            cols = [c for c in A.columns if c in B.columns and c not in keys]
            shared += len(cols)
            for k in sorted(ia, key=str):
                d = C.diff_rows(ia[k], ib[k], cols)
                if d:
                    out.append(Violation(PROP, "depends_on_request", f"historical evaluation, {name}{k}: {d[:3]} = {ia[k][d[0]]} with estimands {p['estimands']} but {ib[k][d[0]]} with [{e!r}] alone",
                                         dict(estimator=p["pi_method"], varied=["estimands"], column=d[0].split("_")[0])))
                    break
    stats.probes["historical_evaluation_full_vs_single_estimand"] += 1
    stats.state(("historical", p["pi_method"], len(p["estimands"]), tuple(p["aggregates"]), bool(p["features"])), shared > 0)
    stats.sample = dict(kind="historical_request", night_seed=spec.get("night_seed"), units=len(world["baseline"]), profile={k: p[k] for k in ("pi_method", "estimands", "aggregates", "prediction_intervals", "threshold")})
    return out, "hist"


def run_custom(spec, stats):
    from nightsim.framework import NightExec

    if spec.get("kind") == "historical_request":
        return run_historical(spec, stats)
    ex = NightExec(spec, Checker(spec), stats)
    vs = ex.run()
    summarise(ex, stats)
    return vs, ex.digest()


def summarise(ex, stats):
    stats.sim_minutes = 3.0
    stats.sample = C.sample_of(ex.spec, max_ops=3) | dict(polls=[{k: v for k, v in o.items() if k in ("role", "override", "what", "fresh_client")} for o in ex.spec["ops"] if o["k"] == "poll"])
