"""C09 -- which units feed the model follows the documented eligibility rules exactly; derived quantities are
well-defined.  State invariant with boundary faults; oracle R1; monitor on CombinedDataHandler.get_units."""
import math

import numpy as np

from checks import common as C
from nightsim import refmodels as R
from nightsim.profile import profile_signature
from nightsim.world import world_signature

PROP = "C09"
PROP_NO = 9
LEVEL = "exploration"
MONITORS = ["get_units"]
RULE = ("one evaluation = one poll whose call to CombinedDataHandler.get_units was captured (also polls that later end in the "
        "too-few-units error); distinct = distinct (estimator, estimands, policy, threshold, limits, category histogram, boundary "
        "flags); non-trivial = the state has units in at least two different non-expected categories or a unit exactly on a "
        "boundary (percent == threshold, turnout factor == limit, overlapping reasons)")
ASSUMPTIONS = [
    "outlier-model flags are opaque: a flagged unit must be one that R1 calls reporting+expected; everything else is compared exactly",
    "unit ids unique",
]
REAL, STUBBED = C.REAL, C.STUBBED


def budget(tier):
    return dict(nights=400, wall_s=240) if tier == "quick" else dict(nights=9000, wall_s=1500)


WORLD = dict(offices=["G", "S", "H"], unit_types=["precinct", "precinct", "county"], n_states=(1, 3), n_counties=(2, 6),
             n_units=(2, 7), zero_baseline_frac=0.06, odd_unit_frac=0.04, prorated_p=0.15)
PROFILE = dict(estimators=["nonparametric", "nonparametric", "gaussian", "bootstrap"], B=(2, 10), always_unit=True,
               thresholds=[100, 90, 60, 30, 100], blocklist_p=0.5, outlier_models_p=0.3,
               tf_limits=[(0.5, 2.0), (0.5, 2.0), (0.7, 1.5), (0.2, 5.0), (0.9, 1.1), (0, 100.0), (0.0, 2.0)])
FEED = dict(p_loss=0.04, n_foreign=(0, 3), max_polls=3, poll_every=(40.0, 140.0), start_polls_after=150.0,
            surge_frac=0.05, boundary_frac=0.2, versions=(1, 4))


def make_spec(st, idx, tier):
    spec = C.state_spec(st, tier, WORLD, PROFILE, FEED, min_units=24)
    # overlapping reasons: blocklist a zero-baseline unit / a unit with a strange turnout factor
    mp = spec["profile"]["model_parameters"]
    zb = [r["geographic_unit_fips"] for r in spec["world"]["baseline"] if r["baseline_turnout"] == 0]
    if zb and st.operator.random() < 0.5:
        mp.setdefault("unit_blocklist", []).append(zb[0])
    if st.sched.random() < 0.25:
        C.make_live_frame_night(spec)
    else:
        C.add_unrequested_gaps(st, spec, p=0.04)
        C.feed_as_lists_polls(st, spec)
        C.arrival_polls(st, spec)
    return spec


def _num(x):
    try:
        return float(x)
    except (TypeError, ValueError):
        return float("nan")


class Checker(C.BaseChecker):
    PROP = PROP

    def after_poll(self, ex, op, rec):
        st = ex.stats
        if not ex.table.unique_ids():
            return []
        caps = rec.extra["mon"].get("get_units", [])
        if len(caps) != 1 or "monitor_error" in caps[0]:
            if not rec.ok and len(caps) == 0:
                return []  # failed before get_units (input validation)
            st.probes["monitor_unavailable"] += 1  # get_units not observable in this tree; the unit-table clauses of C01 still apply
            return []
        cap = caps[0]
        p = rec.profile
        units, info = R.categorise(ex.world, rec.rows, p)
        st.evaluations += 1
        out = []
        rep, non, unx = cap["reporting"], cap["nonreporting"], cap["unexpected"]
        rep_ids, non_ids = rep["geographic_unit_fips"].tolist(), non["geographic_unit_fips"].tolist()
        unx_rows = {r["geographic_unit_fips"]: r for r in unx.to_dict("records")}
        flagged = {f for f, r in unx_rows.items() if isinstance(r["unit_category"], str) and r["unit_category"].endswith(" modeled")}
        om_t = p["model_parameters"].get("fit_turnout_outlier_model", True)
        om_m = p["model_parameters"].get("fit_margin_outlier_model", True) and "margin" in p["estimands"]
        for f in sorted(flagged):
            cat = unx_rows[f]["unit_category"]
            which = "turnout" if "turnout factor modeled" in cat else "margin"
            if (which == "turnout" and not om_t) or (which == "margin" and not om_m):
                out.append(self.v("outlier_flag_without_model", f"unit {f} carries category {cat!r} although the {which} outlier model is not enabled "
                                                                  f"(fit_turnout_outlier_model={om_t}, fit_margin_outlier_model={p['model_parameters'].get('fit_margin_outlier_model', True)}, estimands {p['estimands']})",
                                  model=which))
                break
        if om_t != bool(p["model_parameters"].get("fit_margin_outlier_model", True)):
            st.probes["outlier_switches_differ"] += 1
        for f in flagged:
            if f not in units or not units[f]["candidate"]:
                out.append(self.v("outlier_flag_on_ineligible", f"unit {f} flagged by an outlier model but is not reporting+expected"))
        want_rep = sorted(f for f, u in units.items() if u["reporting"] == 1 and f not in flagged)
        want_non = sorted(f for f, u in units.items() if u["category"] == "expected" and not u["reporting"])
        want_unx = sorted(f for f, u in units.items() if u["category"] != "expected" or f in flagged)
        if len(set(rep_ids)) != len(rep_ids) or len(set(non_ids)) != len(non_ids) or len(unx_rows) != len(unx):
            out.append(self.v("duplicate_rows", "a unit appears twice in one of the frames returned by get_units"))
        if sorted(rep_ids) != want_rep:
            extra = sorted(set(rep_ids) - set(want_rep))
            miss = sorted(set(want_rep) - set(rep_ids))
            why = sorted({units[f]["category"] if f in units else "?" for f in extra})
            out.append(self.v("fit_set_wrong", f"units used to fit the model differ from the eligibility rules: extra={extra[:4]} (R1: {why}) missing={miss[:4]}",
                              extra_categories=why, missing=bool(miss)))
        if sorted(non_ids) != want_non:
            extra = sorted(set(non_ids) - set(want_non))
            miss = sorted(set(want_non) - set(non_ids))
            out.append(self.v("predicted_set_wrong", f"units to be predicted differ: extra={extra[:4]} missing={miss[:4]}"))
        if sorted(unx_rows) != want_unx:
            extra = sorted(set(unx_rows) - set(want_unx))
            miss = sorted(set(want_unx) - set(unx_rows))
            out.append(self.v("passthrough_set_wrong", f"units passed through as counted votes differ: extra={extra[:4]} missing={miss[:4]}"))
        cats = {}
        for f, r in unx_rows.items():
            if f in units and f not in flagged:
                want = units[f]["category"]
                cats[want] = cats.get(want, 0) + 1
                if r["unit_category"] != want:
                    out.append(self.v("category_wrong", f"unit {f}: category {r['unit_category']!r}, the first applicable reason is {want!r}",
                                      got=str(r["unit_category"]), want=want))
            if int(r["reporting"]) != 0:
                out.append(self.v("reporting_flag", f"pass-through unit {f} has reporting={r['reporting']}"))
        for df, flag in ((rep, 1), (non, 0)):
            if len(df) and (set(df["unit_category"]) != {"expected"} or set(df["reporting"].astype(int)) != {flag}):
                out.append(self.v("reporting_flag", f"modelled frame carries category/reporting other than expected/{flag}"))
        # derived quantities: follow their definitions, 0 (never NaN/inf) when the denominator is 0
        wm = R.weights_mode(p["estimands"])
        boundary = set()
        for df, which in ((rep, "reporting"), (non, "nonreporting"), (unx, "unexpected")):
            for r in df.to_dict("records"):
                f = r["geographic_unit_fips"]
                u = units.get(f)
                if u is None:
                    continue
                d, g, t = float(u["dem"]), float(u["gop"]), float(u["turnout"])
                want_w = (d + g) if wm == "twoparty" else t
                got_w = _num(r.get("results_weights"))
                if got_w != want_w:
                    out.append(self.v("derived_weights", f"{which} unit {f}: results_weights={got_w}, definition gives {want_w}", mode=wm))
                if "margin" in p["estimands"]:
                    gm, gn = _num(r.get("results_margin")), _num(r.get("results_normalized_margin"))
                    wn = ((d - g) / (d + g)) if (d + g) != 0 else 0.0
                    if gm != d - g:
                        out.append(self.v("derived_margin", f"{which} unit {f}: results_margin={gm}, dem-gop={d - g}"))
                    if not (math.isfinite(gn) and C.close(gn, wn, rel=1e-12, abs_=1e-15)):
                        out.append(self.v("derived_normalized_margin", f"{which} unit {f}: results_normalized_margin={gn}, definition gives {wn}",
                                          zero_denominator=(d + g) == 0))
                    if (d + g) == 0:
                        st.probes["zero_two_party_votes"] += 1
                if not u["foreign"]:
                    bw = float(u["baseline_weights"])
                    want_tf = (want_w / bw) if bw != 0 else 0.0
                    got_tf = _num(r.get("turnout_factor"))
                    if not (math.isfinite(got_tf) and C.close(got_tf, want_tf, rel=1e-12, abs_=1e-15)):
                        out.append(self.v("derived_turnout_factor", f"{which} unit {f}: turnout_factor={got_tf}, definition gives {want_tf}",
                                          zero_denominator=bw == 0))
                    if bw == 0:
                        st.probes["zero_baseline_denominator"] += 1
                    if "margin" in p["estimands"]:
                        b = u["baseline"]
                        bd, bg = float(b["baseline_dem"]), float(b["baseline_gop"])
                        wbn = ((bd - bg) / (bd + bg)) if (bd + bg) else 0.0
                        gbn = _num(r.get("baseline_normalized_margin"))
                        if not (math.isfinite(gbn) and C.close(gbn, wbn, rel=1e-12, abs_=1e-15)):
                            out.append(self.v("derived_baseline_margin", f"{which} unit {f}: baseline_normalized_margin={gbn}, definition gives {wbn}"))
                    lo = p["model_parameters"].get("turnout_factor_lower", 0.5)
                    hi = p["model_parameters"].get("turnout_factor_upper", 2.0)
                    if u["at_threshold"] and (u["tf"] == lo or u["tf"] == hi):
                        boundary.add("tf_exactly_at_limit")
                    if u["pev"] == p["threshold"]:
                        boundary.add("pev_exactly_at_threshold")
                    reasons = sum([f in set(p["model_parameters"].get("unit_blocklist", [])) or u["postal_code"] in set(p["model_parameters"].get("postal_code_blocklist", [])),
                                   bw == 0, u["at_threshold"] and (u["tf"] <= lo or u["tf"] >= hi)])
                    if reasons >= 2:
                        boundary.add("overlapping_reasons")
        for b in boundary:
            st.probes[b] += 1
        for c in cats:
            st.probes["cat:" + c] += 1
        if flagged:
            st.probes["outlier_model_flagged"] += 1
        if ex.spec.get("feed_stats", {}).get("unrequested_gaps"):
            st.probes["night_with_gaps_in_unrequested_columns"] += 1
        for k_, v_ in (rec.extra.get("arrival") or {}).items():
            if k_ != "seed":
                st.probes[f"arrival:{k_}={v_}"] += 1
        if rec.extra.get("feed_passed_as_lists"):
            st.probes["poll_with_the_feed_passed_as_list_of_lists"] += 1
        if rec.extra.get("feed_frame_reused_in_place"):
            st.probes["poll_on_a_feed_frame_updated_in_place"] += 1
        mp = p["model_parameters"]
        nontrivial = len(cats) >= 2 or bool(boundary)
        st.state((p["pi_method"], tuple(sorted(p["estimands"])), p["handle_unreporting"], p["threshold"],
                  (mp.get("turnout_factor_lower", 0.5), mp.get("turnout_factor_upper", 2.0)),
                  tuple(sorted((c, min(2, n)) for c, n in cats.items())), tuple(sorted(boundary)), bool(flagged)), nontrivial)
        return out


def checker(spec):
    return Checker(spec)


def summarise(ex, stats):
    stats.sim_minutes = ex.spec.get("feed_stats", {}).get("sim_minutes", 0.0)
    stats.sample = C.sample_of(ex.spec)
