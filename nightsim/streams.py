"""The only source of randomness of the simulator.

One integer (VERIF_SEED) -> SeedSequence([seed, property_number, night_index]) -> one independent
child stream per party.  Separate streams keep the world stable while a schedule is being shrunk.
Logging never draws from a stream and never reads a real clock.
"""
import os

import numpy as np

STREAM_NAMES = ("world", "release", "feed", "operator", "storage", "solver", "shadow", "sched")

DEFAULT_SEED = 20240917


def base_seed():
    v = os.environ.get("VERIF_SEED", "").strip()
    if v == "":
        return DEFAULT_SEED
    try:
        return int(v) % (2**63)
    except ValueError:
        # any string is accepted: hash it deterministically (not with hash(), which is salted)
        import hashlib

        return int(hashlib.sha256(v.encode()).hexdigest()[:15], 16)


class Streams:
    def __init__(self, seed, prop_no, night):
        self.key = (int(seed), int(prop_no), int(night))
        ss = np.random.SeedSequence(list(self.key))
        for name, kid in zip(STREAM_NAMES, ss.spawn(len(STREAM_NAMES))):
            setattr(self, name, np.random.default_rng(kid))


def choice(rng, seq):
    """Deterministic choice from a python sequence (keeps python types)."""
    return seq[int(rng.integers(0, len(seq)))]


def chance(rng, p):
    return bool(rng.random() < p)


def subset(rng, seq, pmin=0.0, pmax=1.0):
    p = rng.uniform(pmin, pmax)
    return [x for x in seq if rng.random() < p]
