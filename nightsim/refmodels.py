"""Reference models (oracles).  Same interface as the system, trivial inside: plain dict / list / numpy,
written independently of the repository's data-frame plumbing.

R1  unit categories        categorise()
R2  group ledger           aggregate_keys(), ledger()
"""
import math

AGG_ORDER = ["postal_code", "district", "county_classification", "county_fips"]
TABLE_NAME = {
    "postal_code": "state_data",
    "county_fips": "county_data",
    "district": "district_data",
    "county_classification": "classification_data",
    "unit": "unit_data",
}


def aggregate_keys(office, agg):
    """Key list of one requested aggregate level, as ModelClient.get_aggregate_list documents it."""
    base = ["postal_code", "district"] if office[0] in "HYZ" else ["postal_code"]
    keys = set(base + [agg])
    return sorted(keys, key=AGG_ORDER.index)


def weights_mode(estimands):
    return "twoparty" if "margin" in estimands else "turnout"


def _isclose0(x):
    return abs(x) <= 1e-8


def categorise(world, rows, profile):
    """R1.  Returns (units, info): units = {fips: dict} for every unit that must appear in the unit table.

    dict keys: category ('expected' | 'unexpected' | 'non-modeled: ...'), reporting (0/1), candidate (bool:
    would be reporting+expected before any outlier model), pev, dem, gop, turnout, weights (live two-party
    or turnout), margin, postal_code, county_fips, district, county_classification, foreign (bool).
    """
    est = profile["estimands"]
    wm = weights_mode(est)
    mp = profile.get("model_parameters", {})
    lower = mp.get("turnout_factor_lower", 0.5)
    upper = mp.get("turnout_factor_upper", 2.0)
    ublock = set(mp.get("unit_blocklist", []))
    sblock = set(mp.get("postal_code_blocklist", []))
    thr = profile["threshold"]
    policy = profile["handle_unreporting"]
    aggs = profile["aggregates"]
    district_type = "district" in world["unit_type"]

    feed = {}
    for r in rows:
        feed.setdefault((r["postal_code"], r["geographic_unit_fips"]), r)
    units = {}
    data_fips = set()
    for b in world["baseline"]:
        key = (b["postal_code"], b["geographic_unit_fips"])
        f = feed.get(key)
        if f is not None and _missing_requested(f, est):
            # a feed row that lacks the value of a requested estimand: 'drop' drops the unit from the modelled data (its
            # other counts then travel as an unexpected unit, see below), 'zero' zeroes what is missing and its percent
            if policy == "drop":
                continue
            f = dict(f, percent_expected_vote=0, **{c: (0 if f.get(c) is None else f[c]) for c in ("results_dem", "results_gop", "results_turnout")})
            live_missing = True
        elif f is None:
            if policy == "drop":
                continue
            f = dict(percent_expected_vote=0, results_dem=0, results_gop=0, results_turnout=0)
            live_missing = True
        else:
            live_missing = False
        if any(f.get(c) is None for c in ("results_dem", "results_gop")):
            # a party count that no requested estimand needs has not arrived: unknown (NaN), and of no consequence
            f = dict(f, **{c: (float("nan") if f.get(c) is None else f[c]) for c in ("results_dem", "results_gop")})
        fips = b["geographic_unit_fips"]
        data_fips.add(fips)
        bw = (b["baseline_dem"] + b["baseline_gop"]) if wm == "twoparty" else b["baseline_turnout"]
        rw = (f["results_dem"] + f["results_gop"]) if wm == "twoparty" else f["results_turnout"]
        tf = (rw / bw) if bw != 0 else 0.0
        if math.isnan(tf) or math.isinf(tf):
            tf = 0.0
        pev = f["percent_expected_vote"]
        at_thr = pev >= thr
        if fips in ublock or b["postal_code"] in sblock:
            cat = "non-modeled: blocklisted"
        elif _isclose0(bw):
            cat = "non-modeled: zero baseline"
        elif at_thr and (tf <= lower or tf >= upper):
            cat = "non-modeled: strange turnout factor"
        else:
            cat = "expected"
        two = f["results_dem"] + f["results_gop"]
        units[fips] = dict(
            category=cat,
            reporting=1 if (cat == "expected" and at_thr) else 0,
            candidate=(cat == "expected" and at_thr),
            at_threshold=at_thr,
            pev=pev,
            dem=f["results_dem"],
            gop=f["results_gop"],
            turnout=f["results_turnout"],
            weights=rw,
            baseline_weights=bw,
            tf=tf,
            margin=f["results_dem"] - f["results_gop"],
            norm_margin=((f["results_dem"] - f["results_gop"]) / two) if two else 0.0,
            postal_code=b["postal_code"],
            county_fips=b["county_fips"],
            district=b.get("district"),
            county_classification=b["county_classification"],
            foreign=False,
            live_missing=live_missing,
            baseline=b,
        )
    n_foreign = 0
    for r in rows:
        fips = r["geographic_unit_fips"]
        if fips in data_fips or fips in units:
            continue
        comps = fips.split("_")
        county = None
        district = None
        if "county_fips" in aggs:
            county = comps[1] if (district_type and len(comps) > 1) else comps[0]
        if "district" in aggs:
            district = comps[0]
        partial = any(r.get(c) is None for c in ("results_dem", "results_gop", "results_turnout"))
        two = (r["results_dem"] + r["results_gop"]) if (r["results_dem"] is not None and r["results_gop"] is not None) else None
        rw = two if wm == "twoparty" else r["results_turnout"]
        units[fips] = dict(
            category="unexpected",
            reporting=0,
            candidate=False,
            at_threshold=r["percent_expected_vote"] >= thr,
            pev=r["percent_expected_vote"],
            dem=r["results_dem"],
            gop=r["results_gop"],
            turnout=r["results_turnout"],
            weights=rw,
            baseline_weights=None,
            tf=None,
            margin=(r["results_dem"] - r["results_gop"]) if two is not None else None,
            norm_margin=(((r["results_dem"] - r["results_gop"]) / two) if two else 0.0) if two is not None else None,
            postal_code=r["postal_code"],
            county_fips=county,
            district=district,
            county_classification=None,
            foreign=True,
            live_missing=False,
            baseline=None,
        )
        n_foreign += 1
    info = dict(n_foreign=n_foreign, n_candidates=sum(1 for u in units.values() if u["candidate"]))
    return units, info


def counted(u, estimand):
    """Counted value of one unit for one estimand; None when the feed row lacks it."""
    if estimand == "margin":
        return u["margin"]
    return u[estimand]


def _missing_requested(f, est):
    for e in est:
        cols = ("results_dem", "results_gop") if e == "margin" else (f"results_{e}",)
        if any(f.get(c) is None for c in cols):
            return True
    return False


def ledger(world, units, agg, estimands, flagged=()):
    """R2.  Per group of level `agg`: counted votes per estimand, number of reporting modelled units,
    number of nonreporting (predicted) units, unit lists.  `flagged`: fips that an (opaque) outlier model
    moved from expected+reporting to non-modelled."""
    keys = aggregate_keys(world["office"], agg)
    is_class = "county_classification" in keys
    groups = {}
    unattributable = []
    for fips in sorted(units):
        u = units[fips]
        modelled = u["category"] == "expected" and fips not in flagged
        if is_class and not modelled:
            continue
        kv = tuple(u[k] for k in keys)
        if any(v is None for v in kv):
            unattributable.append(fips)
            continue
        g = groups.setdefault(
            kv,
            dict(counted={e: 0 for e in estimands}, weights=0.0, n_reporting=0, n_nonreporting=0, reporting=[],
                 nonreporting=[], other=[]),
        )
        for e in estimands:
            g["counted"][e] += counted(u, e) or 0
        if modelled and u["reporting"]:
            g["n_reporting"] += 1
            g["reporting"].append(fips)
        elif modelled:
            g["n_nonreporting"] += 1
            g["nonreporting"].append(fips)
        else:
            g["other"].append(fips)
    return keys, groups, unattributable
