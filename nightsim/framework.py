"""Night execution, violation records, fan-out, known findings, replay, evidence.

A *family* (one per property, in checks/cNN.py) provides:
    PROP, PROP_NO, LEVEL ("exploration" | "fault_enumeration"), RULE (str), ASSUMPTIONS [str]
    budget(tier) -> dict(nights=..., wall_s=...)
    make_spec(streams, idx, tier) -> spec      (explicit, JSON-able night: world, profile, ops, knobs)
    checker(spec) -> object with after_poll(ex, op, rec) -> [Violation], finish(ex) -> [Violation]
    (optional) run_custom(spec) -> NightResult   for families that do not use the poll loop (C17, C19)
"""
import collections
import concurrent.futures as cf
import copy
import faulthandler
import hashlib
import json
import multiprocessing as mp
import os
import subprocess
import sys
import time
import traceback

from . import monitors, seams
from .night import ResultsTable
from .runner import quiet_logging, run_poll
from .streams import Streams, base_seed

VERIF = os.path.dirname(os.path.dirname(os.path.abspath(__file__)))
REPLAY_DIR = os.path.join(VERIF, "replays")
EVIDENCE_DIR = os.path.join(VERIF, "evidence")
KNOWN_FILE = os.path.join(VERIF, "known_findings.json")


class HarnessError(Exception):
    pass


class Violation:
    def __init__(self, prop, clause, message, flags=None, detail=None, op_index=None):
        self.prop, self.clause, self.message = prop, clause, message
        self.flags = dict(flags or {})
        self.detail = detail
        self.op_index = op_index

    def signature(self):
        return (self.prop, self.clause, tuple(sorted((k, _canon(v)) for k, v in self.flags.items())))

    def to_dict(self):
        return dict(property=self.prop, clause=self.clause, flags=self.flags, message=self.message,
                    detail=self.detail, op_index=self.op_index)

    @staticmethod
    def from_dict(d):
        return Violation(d["property"], d["clause"], d["message"], d.get("flags"), d.get("detail"), d.get("op_index"))


def _canon(v):
    if isinstance(v, (list, tuple)):
        return tuple(_canon(x) for x in v)
    if isinstance(v, dict):
        return tuple(sorted((k, _canon(x)) for k, x in v.items()))
    return v


def sig_of_dict(d):
    return (d["property"], d["clause"], tuple(sorted((k, _canon(v)) for k, v in (d.get("flags") or {}).items())))


class Stats:
    """Per-night measurement of reach.  Everything here is counted, nothing is configured."""

    def __init__(self):
        self.polls = 0
        self.polls_ok = 0
        self.repo_errors = collections.Counter()
        self.faults = collections.Counter()
        self.probes = collections.Counter()
        self.states = {}  # signature -> nontrivial(bool)
        self.sim_minutes = 0.0
        self.evaluations = 0
        self.sample = None
        self.extra = collections.Counter()

    def state(self, sig, nontrivial):
        s = json.dumps(sig, sort_keys=True, default=str)
        self.states[s] = bool(nontrivial) or self.states.get(s, False)

    def to_dict(self):
        return dict(polls=self.polls, polls_ok=self.polls_ok, repo_errors=dict(self.repo_errors),
                    faults=dict(self.faults), probes=dict(self.probes), states=self.states,
                    sim_minutes=self.sim_minutes, evaluations=self.evaluations, sample=self.sample,
                    extra=dict(self.extra))


class NightExec:
    """Executes the explicit op list of one night against the real code."""

    def __init__(self, spec, checker, stats=None):
        self.spec = spec
        self.world = spec["world"]
        self.profile = copy.deepcopy(spec["profile"])
        self.table = ResultsTable()
        self.client = None
        self.shared_args = None
        self.checker = checker
        self.stats = stats or Stats()
        self.records = []
        self.violations = []
        self.log = hashlib.sha256()
        self.op_index = -1
        self.bucket = seams.STORAGE.new_night(page_size=spec.get("page_size", 1000))
        self.stop_on_first = spec.get("stop_on_first", True)

    def poll(self, op):
        prof = copy.deepcopy(self.profile)
        if op.get("override"):
            prof.update(copy.deepcopy(op["override"]))
        if op.get("feed_as_lists"):
            prof["feed_as_lists"] = True
        if op.get("arrival"):
            prof["arrival"] = dict(op["arrival"])
        if op.get("fresh_client") or self.client is None:
            from elexmodel.client import ModelClient

            self.client = ModelClient()
        rows = self.table.snapshot() if op.get("rows") is None else [dict(r) for r in op["rows"]]
        if op.get("shuffle_rows") is not None:
            perm = op["shuffle_rows"]
            if len(perm) == len(rows):
                rows = [rows[i] for i in perm]
        shared = None
        if op.get("reuse_args") or op.get("inplace_feed"):
            if self.shared_args is None:
                self.shared_args = {}
            shared = self.shared_args
            if op.get("inplace_feed"):
                shared["inplace_feed"] = True
            if not op.get("reuse_args"):
                # only the feed frame is kept between polls; the other argument objects are rebuilt
                for k_ in ("preprocessed", "config", "model_parameters"):
                    shared.pop(k_, None)
        self.bucket.set_time_minutes(op.get("t", 0.0))
        sf = op.get("solver_fault")
        if sf is not None:
            seams.SOLVER.reset(fault_at=sf["at"], fault_kind=sf["kind"], record_args=bool(sf.get("record", True)))
        elif seams.SOLVER.installed:
            seams.SOLVER.reset(record_args=bool(op.get("record_fits")), ref_at=op.get("solver_ref_at"))
        pf = op.get("put_fault")
        self.bucket.put_attempts = 0
        if pf is not None:
            self.bucket.put_fault_at, self.bucket.put_fault_kind = pf["at"], pf.get("kind", "raise")
        else:
            self.bucket.put_fault_at = None
        monitors.reset()
        rec = run_poll(self.world, rows, prof, client=self.client, role=op.get("role", "primary"),
                       shared_args=shared, national_summary=op.get("national_summary"),
                       extra_feed_cols=op.get("extra_feed_cols"))
        rec.extra["op"] = op
        rec.extra["mon"] = monitors.take()
        rec.extra["fits"] = list(seams.SOLVER.calls) if seams.SOLVER.installed else []
        rec.extra["n_solves"] = seams.SOLVER.n_solves if seams.SOLVER.installed else 0
        self.stats.polls += 1
        if rec.ok:
            self.stats.polls_ok += 1
        else:
            self.stats.repo_errors[rec.exc_type] += 1
            if "NotEnoughSubunits" not in rec.exc_type and "injected" not in (rec.exc_msg or "") and "Unable to save content" not in (rec.exc_msg or ""):
                import re as _re
                self.stats.extra["exc: " + rec.exc_type.split(".")[-1] + ": " + _re.sub(r"[0-9]+", "N", (rec.exc_msg or ""))[:90]] += 1
        return rec

    def run(self):
        for i, op in enumerate(self.spec["ops"]):
            self.op_index = i
            k = op["k"]
            if k in ("deliver", "foreign", "dup", "rescale", "retract", "set_row"):
                self.table.apply(op)
                self.stats.faults["delivered" if k == "deliver" else k] += 1
            elif k == "lost":
                self.stats.faults["lost"] += 1
            elif k == "operator":
                self.profile.update(copy.deepcopy(op["set"]))
                self.stats.faults["operator_act"] += 1
            elif k == "crash":
                self.client = None
                self.shared_args = None if op.get("lose_args", True) else self.shared_args
                self.stats.faults["runner_crash_restart"] += 1
            elif k == "poll":
                if hasattr(self.checker, "should_skip") and self.checker.should_skip(self, op):
                    continue
                rec = self.poll(op)
                self.records.append(rec)
                self.log.update(json.dumps(rec.summary(), sort_keys=True).encode())
                vs = self.checker.after_poll(self, op, rec) or []
                for v in vs:
                    v.op_index = i
                self.violations.extend(vs)
                if vs and self.stop_on_first:
                    break
            else:
                raise HarnessError(f"unknown op kind {k!r}")
            if k != "poll":
                self.log.update(json.dumps(op, sort_keys=True, default=str).encode())
        if not (self.violations and self.stop_on_first):
            vs = self.checker.finish(self) or []
            self.violations.extend(vs)
        return self.violations

    def digest(self):
        return self.log.hexdigest()[:24]


class NullChecker:
    def after_poll(self, ex, op, rec):
        return []

    def finish(self, ex):
        return []


# ------------------------------------------------------------------------------------------ one night


def execute_spec(family, spec):
    """Pure function of (spec, code under test) -> result dict."""
    stats = Stats()
    for m in getattr(family, "MONITORS", []):
        getattr(monitors, "install_" + m)()
    if getattr(family, "SOLVER_SEAM", False):
        seams.SOLVER.install()
    if hasattr(family, "run_custom"):
        violations, digest = family.run_custom(spec, stats)
    else:
        ex = NightExec(spec, family.checker(spec), stats)
        violations = ex.run()
        digest = ex.digest()
        if hasattr(family, "summarise"):
            family.summarise(ex, stats)
    return dict(violations=[v.to_dict() for v in violations], stats=stats.to_dict(), digest=digest)


def run_one_night(family, seed, idx, tier):
    st = Streams(seed, family.PROP_NO, idx)
    spec = family.make_spec(st, idx, tier)
    spec.setdefault("format", 1)
    spec["property"] = family.PROP
    spec["night_seed"] = [int(seed), int(family.PROP_NO), int(idx)]
    res = execute_spec(family, spec)
    res["idx"] = idx
    if res["violations"]:
        res["spec"] = spec
    return res


_FAMILY = None


def _worker_init(prop):
    faulthandler.enable()
    quiet_logging()


def _worker(args):
    prop, seed, idx, tier, hang_s = args
    faulthandler.dump_traceback_later(hang_s, exit=True)
    try:
        fam = load_family(prop)
        t0 = time.time()
        r = run_one_night(fam, seed, idx, tier)
        r["wall_s"] = time.time() - t0
        return r
    except Exception:  # noqa: BLE001
        return dict(idx=idx, harness_error=traceback.format_exc())
    finally:
        faulthandler.cancel_dump_traceback_later()


def load_family(prop):
    import importlib

    sys.path.insert(0, VERIF) if VERIF not in sys.path else None
    mod = importlib.import_module(f"checks.{prop.lower()}")
    return mod


def prepare_process():
    """Import the code under test from <repo>/src and install the seams (done once, before forking)."""
    repo = os.environ.get("VERIF_REPO", "/repo")
    src = os.path.join(repo, "src")
    if not os.path.isdir(src):
        raise HarnessError(f"no such repository source dir: {src}")
    if src in sys.path:
        sys.path.remove(src)
    sys.path.insert(0, src)
    import elexmodel  # noqa: F401
    import elexmodel.client  # noqa: F401

    real = os.path.realpath(os.path.dirname(elexmodel.__file__))
    if not real.startswith(os.path.realpath(src)):
        raise HarnessError(f"elexmodel imported from {real}, expected under {src}")
    quiet_logging()
    seams.STORAGE.install()
    seams.install_audit()
    return repo


# ------------------------------------------------------------------------------------------ findings


def load_known(prop):
    if not os.path.exists(KNOWN_FILE):
        return []
    with open(KNOWN_FILE) as f:
        k = json.load(f)
    return [e for e in k.get("findings", []) if e["property"] == prop]


def matches_known(vdict, entry):
    m = entry.get("match", {})
    if m.get("clause") is not None and vdict["clause"] != m["clause"]:
        return False
    fl = vdict.get("flags") or {}
    for k, v in (m.get("flags") or {}).items():
        if _canon(fl.get(k)) != _canon(v):
            return False
    return True


# ------------------------------------------------------------------------------------------ shrinking


def _still_fails(family, spec, want_sig, same_clause_only=True):
    try:
        res = execute_spec(family, spec)
    except Exception:  # noqa: BLE001 - a candidate that breaks the harness is simply not kept
        return None
    for v in res["violations"]:
        s = sig_of_dict(v)
        if s == want_sig:
            return v
    return None


def shrink(family, spec, vdict, budget=80, wall_s=75):
    """Delta debugging over the explicit night: drop ops, drop units / counties / states, fewer levels,
    aggregates, estimands -- keeping only candidates that fail with the same (clause, flags)."""
    want = sig_of_dict(vdict)
    if "world" not in spec or not spec.get("ops"):
        return spec
    best = copy.deepcopy(spec)
    t0 = time.time()
    runs = [0]

    def try_(cand):
        if runs[0] >= budget or time.time() - t0 > wall_s:
            return False
        runs[0] += 1
        v = _still_fails(family, cand, want)
        return v is not None

    # 1. truncate after the failing op
    oi = vdict.get("op_index")
    if oi is not None and oi + 1 < len(best["ops"]):
        cand = copy.deepcopy(best)
        cand["ops"] = cand["ops"][: oi + 1]
        if try_(cand):
            best = cand
    # 2. drop polls that are not needed, then other ops in chunks
    changed = True
    while changed and runs[0] < budget:
        changed = False
        n = len(best["ops"])
        chunk = max(1, n // 2)
        while chunk >= 1 and runs[0] < budget:
            i = 0
            while i < len(best["ops"]) and runs[0] < budget:
                cand = copy.deepcopy(best)
                del cand["ops"][i : i + chunk]
                if len(cand["ops"]) and try_(cand):
                    best = cand
                    changed = True
                else:
                    i += chunk
            chunk //= 2
    # 3. drop states, counties, units from the world (and their ops)
    def drop_units(pred):
        cand = copy.deepcopy(best)
        gone = {r["geographic_unit_fips"] for r in cand["world"]["baseline"] if pred(r)}
        if not gone or len(gone) == len(cand["world"]["baseline"]):
            return None
        cand["world"]["baseline"] = [r for r in cand["world"]["baseline"] if r["geographic_unit_fips"] not in gone]
        cand["world"]["truth"] = {k: v for k, v in cand["world"]["truth"].items() if k not in gone}
        cand["ops"] = [o for o in cand["ops"] if o.get("u") not in gone]
        return cand

    for level in ("postal_code", "county_fips", "geographic_unit_fips"):
        vals = sorted({r[level] for r in best["world"]["baseline"]})
        for val in vals:
            if runs[0] >= budget:
                break
            cand = drop_units(lambda r, level=level, val=val: r[level] == val)
            if cand is None:
                continue
            if level == "postal_code":
                st = [s for s in cand["world"]["states"] if s != val]
                if not st:
                    continue
                cand["world"]["states"] = st
                for sub in cand["world"]["config"][cand["world"]["election_id"]]:
                    sub["states"] = st
                cand["ops"] = [o for o in cand["ops"] if not (o.get("row") and o["row"].get("postal_code") == val)]
            if try_(cand):
                best = cand
    # 4. simplify the profile
    for key in ("prediction_intervals", "aggregates", "estimands"):
        vals = list(best["profile"].get(key, []))
        for x in list(vals):
            if runs[0] >= budget or len(vals) <= 1:
                break
            cand = copy.deepcopy(best)
            nv = [y for y in vals if y != x]
            cand["profile"][key] = nv
            if try_(cand):
                best = cand
                vals = nv
    best["shrink"] = dict(runs=runs[0], ops_before=len(spec["ops"]), ops_after=len(best["ops"]),
                          units_before=len(spec["world"]["baseline"]) if "world" in spec else None,
                          units_after=len(best["world"]["baseline"]) if "world" in best else None)
    return best


# ------------------------------------------------------------------------------------------ replay


def write_replay(prop, spec, vdict, tag):
    os.makedirs(REPLAY_DIR, exist_ok=True)
    spec = copy.deepcopy(spec)
    spec["expect"] = dict(clause=vdict["clause"], flags=vdict.get("flags") or {}, message=vdict["message"])
    path = os.path.join(REPLAY_DIR, f"{prop}-{tag}.json")
    with open(path, "w") as f:
        # NOT sort_keys: the order of dict entries is part of the input (e.g. the order of a fixed-effects dict decides the
        # order of the design-matrix columns)
        json.dump(spec, f, indent=None, default=_json_default)
    return path


def _json_default(o):
    import numpy as np

    if isinstance(o, (np.integer,)):
        return int(o)
    if isinstance(o, (np.floating,)):
        return float(o)
    if isinstance(o, np.ndarray):
        return o.tolist()
    if isinstance(o, (set, tuple)):
        return list(o)
    return str(o)


def replay_file(family, path, quiet=False):
    with open(path) as f:
        spec = json.load(f)
    res = execute_spec(family, spec)
    exp = spec.get("expect")
    hit = None
    for v in res["violations"]:
        if exp is None or (v["clause"] == exp["clause"] and _canon(v.get("flags") or {}) == _canon(exp.get("flags") or {})):
            hit = v
            break
    return res, hit


def replay_in_fresh_process(prop, path):
    """Replay must reproduce the violation in a fresh interpreter: pure function of file and code."""
    cmd = [os.path.join(VERIF, "bin", "check"), prop, "--replay", path, "--quiet"]
    env = dict(os.environ)
    try:
        p = subprocess.run(cmd, capture_output=True, text=True, timeout=600, env=env)
    except subprocess.TimeoutExpired:
        return False, "timeout"
    return p.returncode == 1, (p.stdout + p.stderr)[-2000:]


# ------------------------------------------------------------------------------------------ batch driver


def run_batch(prop, tier, nights=None, workers=None, wall_s=None, seed=None, indices=None):
    family = load_family(prop)
    b = family.budget(tier)
    nights = int(nights if nights is not None else b["nights"])
    wall_s = float(wall_s if wall_s is not None else b.get("wall_s", 600))
    workers = int(workers or os.environ.get("VERIF_WORKERS") or min(16, os.cpu_count() or 1))
    seed = base_seed() if seed is None else seed
    hang_s = int(b.get("hang_s", 900))
    t0 = time.time()
    results = {}
    harness_errors = []
    ctx = mp.get_context("fork")
    with cf.ProcessPoolExecutor(max_workers=workers, mp_context=ctx, initializer=_worker_init, initargs=(prop,)) as ex:
        pending = {}
        todo = list(indices) if indices is not None else list(range(nights))
        pos = 0
        stop_submitting = False
        while True:
            while not stop_submitting and pos < len(todo) and len(pending) < workers * 2:
                f = ex.submit(_worker, (prop, seed, todo[pos], tier, hang_s))
                pending[f] = todo[pos]
                pos += 1
            if not pending:
                break
            done, _ = cf.wait(list(pending), timeout=5, return_when=cf.FIRST_COMPLETED)
            for f in done:
                idx = pending.pop(f)
                try:
                    r = f.result()
                except Exception as e:  # noqa: BLE001 - worker died
                    r = dict(idx=idx, harness_error=f"worker died: {e!r}")
                if "harness_error" in r:
                    harness_errors.append((idx, r["harness_error"]))
                else:
                    results[idx] = r
            if time.time() - t0 > wall_s and indices is None:
                stop_submitting = True
            if harness_errors:
                stop_submitting = True
    wall = time.time() - t0
    return family, seed, results, harness_errors, wall


def aggregate(results):
    tot = dict(polls=0, polls_ok=0, evaluations=0, sim_minutes=0.0)
    faults, probes, errors, extra = collections.Counter(), collections.Counter(), collections.Counter(), collections.Counter()
    states = {}
    digests = set()
    samples = []
    for idx in sorted(results):
        s = results[idx]["stats"]
        for k in ("polls", "polls_ok", "evaluations"):
            tot[k] += s[k]
        tot["sim_minutes"] += s["sim_minutes"]
        faults.update(s["faults"])
        probes.update(s["probes"])
        errors.update(s["repo_errors"])
        extra.update(s.get("extra", {}))
        for k, v in s["states"].items():
            states[k] = states.get(k, False) or v
        digests.add(results[idx]["digest"])
        if s.get("sample") is not None and len(samples) < 3:
            samples.append(s["sample"])
    return tot, faults, probes, errors, extra, states, digests, samples


def write_evidence(family, tier, seed, results, wall, n_violations, known_reproduced, extra_cov=None):
    os.makedirs(EVIDENCE_DIR, exist_ok=True)
    tot, faults, probes, errors, extra, states, digests, samples = aggregate(results)
    nights = len(results)
    distinct_nontrivial = sum(1 for v in states.values() if v)
    evaluations = tot["evaluations"] or tot["polls"]
    cov = dict(
        evaluations=int(evaluations),
        distinct_nontrivial=int(distinct_nontrivial),
        rule=family.RULE,
        samples=samples or [dict(note="no night completed")],
        nights=nights,
        nights_per_hour=round(nights / wall * 3600, 1) if wall > 0 else 0,
        simulated_hours=round(tot["sim_minutes"] / 60.0, 2),
        polls=tot["polls"],
        polls_completed=tot["polls_ok"],
        faults_fired=dict(sorted(faults.items())),
        probes_hit=dict(sorted(probes.items())),
        repo_exceptions_seen=dict(sorted(errors.items())),
        distinct_abstract_states=len(states),
        distinct_schedule_digests=len(digests),
        components_real=getattr(family, "REAL", ["elexmodel (all of it, from <repo>/src)", "elex-solver", "scipy/HiGHS", "cvxpy/Clarabel", "pandas", "numpy"]),
        components_stubbed=getattr(family, "STUBBED", ["results provider / feed", "operator", "S3 service (sim bucket)", "clock"]),
        known_findings_reproduced=known_reproduced,
        other_counters=dict(sorted(extra.items())),
        exhaustive=False,
    )
    if extra_cov:
        cov.update(extra_cov)
    ev = dict(
        property_id=family.PROP,
        tier=tier,
        seed=int(seed),
        level=family.LEVEL,
        coverage=cov,
        assumptions=family.ASSUMPTIONS,
        wall_s=round(wall, 2),
        violations=int(n_violations),
    )
    path = os.path.join(EVIDENCE_DIR, f"{family.PROP}.json")
    with open(path, "w") as f:
        json.dump(ev, f, indent=1, sort_keys=True, default=_json_default)
    return path
