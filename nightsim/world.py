"""World generation: geography, baseline, ground truth.  Pure python/JSON structures only.

A world is a dict:
  election_id, office, unit_type, states[], district_election(bool)
  baseline: list of unit rows (dicts) -- what the model runner has as preprocessed data
  truth:    {fips: {"dem","gop","turnout"}} -- final results, known only to the simulator
  config:   the raw config dict handed to ModelClient
  covariates: names of continuous covariates present in the baseline
"""
import math

from .streams import chance, choice

STATE_POOL = [
    ("AL", "01"), ("AZ", "04"), ("CO", "08"), ("GA", "13"), ("IA", "19"), ("KS", "20"), ("MD", "24"),
    ("MI", "26"), ("NC", "37"), ("OH", "39"), ("PA", "42"), ("TX", "48"), ("VA", "51"), ("WI", "55"),
]
CLASSES = ["rural", "suburban", "urban"]
# district ids deliberately include prefix pairs ("1" / "10" / "11") -- see C02
DISTRICT_POOL = ["1", "10", "2", "11", "3", "12"]

ELECTION_ID = "2022-11-08_USA_G"

DEFAULT_WORLD_KNOBS = dict(
    n_states=(1, 3),
    n_counties=(2, 6),
    n_units=(2, 8),  # per county (ignored for unit_type county: one unit per county [per district])
    unit_types=["precinct", "county"],
    offices=["G"],
    zero_baseline_frac=0.03,
    equal_size=False,
    noise=["normal", "t2", "hetero"],
    surge_frac=0.03,
    boundary_frac=0.05,
    min_units=0,
    max_units=600,
    big_baseline=True,
    prorated_p=0.0,  # probability that the baseline counts are fractional (a past election prorated onto today's units)
    odd_unit_frac=0.0,  # units whose turnout factor is high but inside the hard limits AND whose margin flips
)


def _rint(rng, lo, hi):
    return int(rng.integers(lo, hi + 1))


def make_world(rng, knobs=None):
    k = dict(DEFAULT_WORLD_KNOBS)
    if knobs:
        k.update(knobs)
    office = choice(rng, k["offices"])
    district_election = office[0] in "HYZ"
    unit_type = choice(rng, k["unit_types"])
    if district_election and "district" not in unit_type:
        unit_type = unit_type + "-district"
    if not district_election and "district" in unit_type:
        unit_type = unit_type.replace("-district", "")
    n_states = _rint(rng, *k["n_states"])
    idx = rng.permutation(len(STATE_POOL))[:n_states]
    states = [STATE_POOL[int(i)] for i in sorted(idx)]
    noise = choice(rng, k["noise"])
    equal = k["equal_size"]
    prorated = chance(rng, k["prorated_p"])
    base_size = _rint(rng, 200, 5000)

    baseline = []
    truth = {}
    meta = {}
    for postal, sfips in states:
        n_c = _rint(rng, *k["n_counties"])
        state_tf = float(rng.normal(0.0, 0.08))
        state_sw = float(rng.normal(0.0, 0.05))
        n_d = _rint(rng, *k.get("n_districts", (1, 4))) if district_election else 0
        dperm = rng.permutation(len(DISTRICT_POOL))[: max(n_d, 1)]
        districts = [DISTRICT_POOL[int(i)] for i in dperm]
        class_eff = {c: (float(rng.normal(0, 0.05)), float(rng.normal(0, 0.04))) for c in CLASSES}
        for ci in range(n_c):
            county = f"{sfips}{(2 * ci + 1):03d}"
            cls = choice(rng, CLASSES)
            if unit_type.startswith("county"):
                n_u = 1
            else:
                n_u = _rint(rng, *k["n_units"])
            cdists = [choice(rng, districts)] if district_election else [None]
            if district_election and chance(rng, 0.3) and len(districts) > 1:
                # a county split over two districts
                cdists = [districts[0], districts[1]]
            for d in cdists:
                for ui in range(n_u):
                    if unit_type == "county":
                        fips = county
                    elif unit_type == "precinct":
                        fips = f"{county}_{ui + 1:02d}"
                    elif unit_type == "county-district":
                        fips = f"{d}_{county}"
                    else:
                        fips = f"{d}_{county}_{ui + 1:02d}"
                    if equal:
                        b_turn = base_size
                    else:
                        b_turn = max(1, int(round(math.exp(rng.normal(math.log(base_size), 0.8)))))
                    lean = min(0.95, max(0.05, rng.normal({"rural": 0.38, "suburban": 0.5, "urban": 0.62}[cls], 0.1)))
                    two = int(round(b_turn * rng.uniform(0.9, 1.0)))
                    b_dem = int(round(two * lean))
                    b_gop = two - b_dem
                    if chance(rng, k["zero_baseline_frac"]):
                        b_turn = b_dem = b_gop = 0
                    elif prorated:
                        fr = float(rng.uniform(0.3, 0.97))
                        b_turn, b_dem, b_gop = round(b_turn * fr, 3), round(b_dem * fr, 3), round(b_gop * fr, 3)
                    x1 = float(round(rng.normal(0, 1), 6))
                    x2 = float(round(rng.uniform(0, 1), 6))
                    row = dict(
                        postal_code=postal,
                        county_fips=county,
                        geographic_unit_fips=fips,
                        geographic_unit_type=unit_type.split("-")[0],
                        county_classification=cls,
                        baseline_dem=b_dem,
                        baseline_gop=b_gop,
                        baseline_turnout=b_turn,
                        x1=x1,
                        x2=x2,
                    )
                    if district_election:
                        row["district"] = d
                    two_b = b_dem + b_gop
                    row["baseline_normalized_margin"] = ((b_dem - b_gop) / two_b) if two_b else 0.0
                    baseline.append(row)
                    # ground truth
                    sd = 0.08
                    if noise == "t2":
                        e_tf = float(rng.standard_t(2)) * 0.05
                        e_sw = float(rng.standard_t(2)) * 0.03
                    elif noise == "hetero":
                        e_tf = float(rng.normal(0, sd * (0.3 + 2 * x2)))
                        e_sw = float(rng.normal(0, 0.04 * (0.3 + 2 * x2)))
                    else:
                        e_tf = float(rng.normal(0, sd))
                        e_sw = float(rng.normal(0, 0.04))
                    tf = math.exp(max(-0.6, min(0.6, state_tf + class_eff[cls][0] + 0.05 * x1 + e_tf)))
                    t_turn = int(round(b_turn * tf))
                    share = lean + state_sw + class_eff[cls][1] + 0.02 * x1 + e_sw
                    share = min(0.98, max(0.02, share))
                    t_two = int(round(t_turn * rng.uniform(0.92, 1.0)))
                    t_dem = int(round(t_two * share))
                    t_gop = t_two - t_dem
                    if b_turn > 50 and chance(rng, k["odd_unit_frac"]):
                        # an odd unit: turnout far up (still inside the default hard limits) and the margin flipped
                        t_turn = int(round(b_turn * float(rng.uniform(1.6, 1.95))))
                        t_two = int(round(t_turn * 0.97))
                        t_dem = int(round(t_two * (0.1 if lean > 0.5 else 0.9)))
                        t_gop = t_two - t_dem
                    if b_turn == 0:
                        # empty precinct last time; a few votes this time
                        t_turn = _rint(rng, 0, 30)
                        t_dem = _rint(rng, 0, t_turn)
                        t_gop = t_turn - t_dem
                    truth[fips] = dict(dem=t_dem, gop=t_gop, turnout=max(t_turn, t_dem + t_gop))
                    meta[fips] = dict(kind="normal")
    # de-duplicate fips (county type + split county produces distinct ids because of the district prefix)
    seen = set()
    uniq = []
    for r in baseline:
        if r["geographic_unit_fips"] in seen:
            continue
        seen.add(r["geographic_unit_fips"])
        uniq.append(r)
    baseline = uniq[: k["max_units"]]
    truth = {r["geographic_unit_fips"]: truth[r["geographic_unit_fips"]] for r in baseline}

    aggregates_all = ["postal_code", "county_classification", "county_fips", "unit"]
    if district_election:
        aggregates_all.insert(1, "district")
    fixed_effects_all = ["postal_code", "county_fips", "county_classification"] + (
        ["district"] if district_election else []
    )
    config = {
        ELECTION_ID: [
            {
                "office": office,
                "states": [s for s, _ in states],
                "geographic_unit_types": [unit_type],
                "historical_election": [],
                "features": ["x1", "x2"],
                "aggregates": aggregates_all,
                "fixed_effect": fixed_effects_all,
                "baseline_pointer": {"dem": "dem", "gop": "gop", "turnout": "turnout"},
            }
        ]
    }
    return dict(
        election_id=ELECTION_ID,
        office=office,
        unit_type=unit_type,
        district_election=district_election,
        states=[s for s, _ in states],
        state_fips={s: f for s, f in states},
        baseline=baseline,
        truth=truth,
        config=config,
        covariates=["x1", "x2"],
        noise=noise,
        prorated=prorated,
    )


def world_signature(world):
    b = world["baseline"]
    return (
        world["office"],
        world["unit_type"],
        len(world["states"]),
        min(9, len({r["county_fips"] for r in b}) // 3),
        min(9, len(b) // 25),
    )
