"""Read-only probes inside the running code, attached by monkeypatch.  A monitor copies what it sees and
returns the original value untouched.  Captures are reset by the night executor before every poll."""
import copy
import functools

import numpy as np
import pandas as pd

CAPTURES = {}
_INSTALLED = {}
UNAVAILABLE = {}  # key -> reason: the probe point does not exist in this tree (renamed / removed); clauses that need it are skipped


def reset():
    for k in CAPTURES:
        CAPTURES[k] = []


def take():
    out = {k: v for k, v in CAPTURES.items()}
    for k in list(CAPTURES):
        CAPTURES[k] = []
    return out


def _wrap(cls, name, key, grab):
    if (cls, name) in _INSTALLED:
        return
    CAPTURES.setdefault(key, [])
    if not hasattr(cls, name):
        UNAVAILABLE[key] = f"{cls.__name__}.{name} does not exist"
        return
    orig = getattr(cls, name)

    @functools.wraps(orig)
    def wrapper(self, *a, **k):
        ret = orig(self, *a, **k)
        try:
            CAPTURES[key].append(grab(self, a, k, ret))
        except Exception as e:  # noqa: BLE001 - a monitor must never change the outcome of the poll
            CAPTURES[key].append(dict(monitor_error=repr(e)))
        return ret

    setattr(cls, name, wrapper)
    _INSTALLED[(cls, name)] = orig


def remove_all():
    for (cls, name), orig in list(_INSTALLED.items()):
        setattr(cls, name, orig)
    _INSTALLED.clear()


def _cp(x):
    if isinstance(x, (pd.DataFrame, pd.Series)):
        return x.copy()
    if isinstance(x, np.ndarray):
        return x.copy()
    return copy.deepcopy(x)


def install_get_units():
    from elexmodel.handlers.data.CombinedData import CombinedDataHandler

    def grab(self, a, k, ret):
        return dict(reporting=ret[0].copy(), nonreporting=ret[1].copy(), unexpected=ret[2].copy(), data=self.data.copy(),
                    args=copy.deepcopy(a))

    _wrap(CombinedDataHandler, "get_units", "get_units", grab)


def install_nonparametric_intervals():
    from elexmodel.models.NonparametricElectionModel import NonparametricElectionModel
    from elexmodel.models.ConformalElectionModel import ConformalElectionModel

    def grab_bounds(self, a, k, ret):
        return dict(cls=type(self).__name__, lower=np.array(ret.lower, dtype=float, copy=True), upper=np.array(ret.upper, dtype=float, copy=True),
                    conformalization=ret.conformalization.copy(), conf_frac=a[2], alpha=a[3], estimand=a[4],
                    n_reporting=a[0].shape[0], reporting_ids=a[0]["geographic_unit_fips"].tolist())

    def grab_pi(self, a, k, ret):
        return dict(lower=np.array(ret.lower, dtype=float, copy=True), upper=np.array(ret.upper, dtype=float, copy=True),
                    conformalization=ret.conformalization.copy(), alpha=a[2], estimand=a[3], robust=self.robust,
                    nonreporting=a[1][["geographic_unit_fips", f"last_election_results_{a[3]}", f"results_{a[3]}"]].copy(),
                    n_reporting=a[0].shape[0])

    _wrap(ConformalElectionModel, "get_unit_prediction_interval_bounds", "interval_bounds", grab_bounds)
    _wrap(NonparametricElectionModel, "get_unit_prediction_intervals", "nonparametric_pi", grab_pi)


def install_gaussian_aggregate():
    from elexmodel.models.GaussianElectionModel import GaussianElectionModel
    from elexmodel.models.ConformalElectionModel import ConformalElectionModel

    def grab_bounds(self, a, k, ret):
        return dict(cls=type(self).__name__, lower=np.array(ret.lower, dtype=float, copy=True), upper=np.array(ret.upper, dtype=float, copy=True),
                    conformalization=ret.conformalization.copy(), conf_frac=a[2], alpha=a[3], estimand=a[4],
                    n_reporting=a[0].shape[0], reporting_ids=a[0]["geographic_unit_fips"].tolist())

    _wrap(ConformalElectionModel, "get_unit_prediction_interval_bounds", "interval_bounds", grab_bounds)

    def grab(self, a, k, ret):
        try:
            mb = self.get_all_conformalization_data_agg()[0]  # public accessor of the per-group model rows
        except Exception:  # noqa: BLE001
            mb = getattr(self, "modeled_bounds_agg", None)
        return dict(aggregate=list(a[3]), alpha=a[4], estimand=a[6], modeled_bounds=None if mb is None else mb.copy(),
                    conformalization=a[5].conformalization.copy(), lower=np.array(ret[0], dtype=float, copy=True),
                    upper=np.array(ret[1], dtype=float, copy=True),
                    nonreporting=a[1].copy(), reporting=a[0].copy(), unexpected=a[2].copy(),
                    beta=None, winsorize=None)

    _wrap(GaussianElectionModel, "get_aggregate_prediction_intervals", "gaussian_agg", grab)


_FEAT_SERIAL = [0]


def _feat_serial(obj, new=False):
    """Identity of a Featurizer for associating its calls: a counter stored on the instance (id() values are re-used
    after garbage collection, which would make the association depend on the process' memory layout)."""
    if new or not hasattr(obj, "_sim_serial"):
        _FEAT_SERIAL[0] += 1
        obj._sim_serial = _FEAT_SERIAL[0]
    return obj._sim_serial


def install_featurizer():
    from elexmodel.handlers.data.Featurizer import Featurizer

    def grab_prepare(self, a, k, ret):
        df = a[0]
        cols = [c for c in ["geographic_unit_fips", "postal_code", "reporting", "unit_category"] + list(self.fixed_effect_cols) + list(self.features) if c in df.columns]
        kw = dict(center_features=True, scale_features=True, add_intercept=True)
        names = ["center_features", "scale_features", "add_intercept"]
        for i, v in enumerate(a[1:]):
            kw[names[i]] = v
        kw.update(k)
        return dict(fid=_feat_serial(self, new=True), input=df[list(dict.fromkeys(cols))].copy(), out=ret.copy(), kw=kw,
                    features=list(self.features), fixed_effect_cols=list(self.fixed_effect_cols),
                    fixed_effect_params=copy.deepcopy(self.fixed_effect_params),
                    complete_features=list(self.complete_features), active_features=list(self.active_features),
                    expanded_fixed_effects=list(self.expanded_fixed_effects), active_fixed_effects=list(self.active_fixed_effects),
                    states_for_separate_model=list(self.states_for_separate_model))

    def grab_active(self, a, k, ret):
        exp = [c for c in getattr(self, "expanded_fixed_effects", []) if c in a[0].columns]
        return dict(fid=_feat_serial(self), input_index=list(a[0].index), n=len(a[0]), out=ret.copy(), input_expanded=a[0][exp].copy())

    def grab_holdout(self, a, k, ret):
        return dict(fid=_feat_serial(self), input=a[0].copy(), out=ret.copy())

    _wrap(Featurizer, "prepare_data", "feat_prepare", grab_prepare)
    _wrap(Featurizer, "filter_to_active_features", "feat_active", grab_active)
    _wrap(Featurizer, "generate_holdout_data", "feat_holdout", grab_holdout)


def install_bootstrap_quantiles():
    from elexmodel.models.BootstrapElectionModel import BootstrapElectionModel

    def grab(self, a, k, ret):
        return dict(alpha=a[0] if a else k.get("alpha"), B=self.B, lower_q=float(ret[0]), upper_q=float(ret[1]))

    _wrap(BootstrapElectionModel, "_get_quantiles", "boot_quantiles", grab)
