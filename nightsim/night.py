"""Discrete-event scheduling of one election night.

Parties: one unit process per reporting unit (seeded stream of cumulative result versions converging to
the ground truth), the feed transport (delay, loss, duplication, reordering, after-the-fact re-scaling of
expected vote, foreign units), the poll timer of the model runner and the operator.  The loop owns the
simulated clock: a heap of (sim_minute, seq, event); when nothing is runnable the clock jumps to the next
event.  Its output is the explicit, totally ordered op list of the night (JSON-able) -- executing that
list is a pure function of the list and the code under test (see runner.py), which is what makes replay
and shrinking trivial.
"""
import heapq

from .streams import chance, choice

DEFAULT_FEED_KNOBS = dict(
    horizon=480.0,  # simulated minutes
    versions=(1, 4),
    p_loss=0.03,
    p_dup=0.0,
    p_reorder=0.0,  # probability that a delivery may overtake (long-tailed delay, no FIFO)
    p_rescale=0.0,
    n_foreign=(0, 0),
    p_never_final=0.05,  # unit whose expected-vote stays below 100
    p_provider_err=0.2,
    p_zero_version=0.03,
    late_state_p=0.15,
    foreign_new_state_p=0.1,
    p_flap=0.0,  # the provider flaps: after version k it re-publishes version k-1 and then version k again  # a foreign unit may belong to a state that is not part of the election at all  # polls close later in one state: all its units report in the last fifth of the night  # an early version that carries an expected-vote percentage but no tabulated votes yet
    surge_frac=0.0,
    boundary_frac=0.0,
    poll_every=(30.0, 120.0),
    max_polls=4,
    max_events=100000,
    final_poll=False,  # poll once more after everything has been delivered
    start_polls_after=0.0,
)


def unit_versions(rng, truth_row, baseline_row, k, threshold=100, tf_limits=(0.5, 2.0)):
    """Cumulative versions of one unit: list of dict(pev, dem, gop, turnout, t)."""
    n = int(rng.integers(k["versions"][0], k["versions"][1] + 1))
    horizon = k["horizon"]
    t_last = float(rng.uniform(20, horizon))
    if n == 1:
        fr = [1.0]
        ts = [t_last]
    else:
        cuts = sorted(float(x) for x in rng.uniform(0.05, 0.97, size=n - 1))
        fr = cuts + [1.0]
        ts = sorted(float(x) for x in rng.uniform(5, t_last, size=n - 1)) + [t_last]
    never_final = chance(rng, k["p_never_final"])
    err = float(rng.uniform(0.85, 1.15)) if chance(rng, k["p_provider_err"]) else 1.0
    out = []
    d_final, g_final, t_final = truth_row["dem"], truth_row["gop"], truth_row["turnout"]
    # composition drift between batches: dem arrives earlier or later than gop
    drift = float(rng.uniform(-0.3, 0.3))
    for i, f in enumerate(fr):
        fd = min(1.0, max(0.0, f * (1 + drift * (1 - f))))
        fg = min(1.0, max(0.0, f * (1 - drift * (1 - f))))
        dem = int(round(d_final * fd))
        gop = int(round(g_final * fg))
        oth = int(round((t_final - d_final - g_final) * f))
        pev = int(round(100 * f))
        if i < len(fr) - 1:
            pev = int(max(1, min(99, round(pev * err))))
        elif never_final:
            pev = int(rng.integers(80, 100))
        out.append(dict(pev=pev, dem=dem, gop=gop, turnout=dem + gop + oth, t=ts[i]))
    # enforce monotone cumulative counts (rounding can break it)
    for i in range(1, len(out)):
        for c in ("dem", "gop"):
            out[i][c] = max(out[i][c], out[i - 1][c])
        out[i]["turnout"] = max(out[i]["turnout"], out[i - 1]["turnout"], out[i]["dem"] + out[i]["gop"])
        out[i]["pev"] = max(out[i]["pev"], out[i - 1]["pev"])
    if len(out) >= 2 and chance(rng, k.get("p_zero_version", 0.0)):
        out[0].update(dem=0, gop=0, turnout=0, pev=int(min(out[1]["pev"], choice(rng, [1, 25, 50, 50, 50, 75]))))
    kind = "normal"
    # surge: a partial count that exceeds anything a model would predict
    if len(out) >= 2 and chance(rng, k["surge_frac"]):
        m = float(rng.uniform(2.5, 6.0))
        base = max(baseline_row["baseline_turnout"], 10)
        v = out[0]
        v["dem"] = int(base * m * 0.5)
        v["gop"] = int(base * m * 0.4)
        v["turnout"] = int(base * m)
        v["pev"] = int(rng.integers(5, 60))
        for w in out[1:]:
            w["dem"] = max(w["dem"], v["dem"])
            w["gop"] = max(w["gop"], v["gop"])
            w["turnout"] = max(w["turnout"], v["turnout"])
        kind = "surge"
    elif chance(rng, k["boundary_frac"]):
        which = int(rng.integers(0, 4))
        v = out[-1]
        bt = baseline_row["baseline_turnout"]
        if which == 0 and bt > 0:
            # turnout factor exactly at the upper limit (turnout-weighted estimands)
            v["turnout"] = int(bt * tf_limits[1])
            v["dem"] = int(v["turnout"] * 0.5)
            v["gop"] = int(v["turnout"] * 0.4)
            kind = "tf_upper"
        elif which == 1 and bt > 1:
            v["turnout"] = int(bt * tf_limits[0])
            v["dem"] = int(v["turnout"] * 0.5)
            v["gop"] = int(v["turnout"] * 0.4)
            kind = "tf_lower"
        elif which == 2:
            v["pev"] = int(threshold)
            kind = "pev_at_threshold"
        else:
            v["pev"] = max(0, int(threshold) - 1)
            kind = "pev_below_threshold"
        # keep earlier versions below the last
        for w in out[:-1]:
            w["dem"] = min(w["dem"], v["dem"])
            w["gop"] = min(w["gop"], v["gop"])
            w["turnout"] = min(w["turnout"], v["turnout"])
            w["pev"] = min(w["pev"], v["pev"])
    return out, kind


def feed_row(baseline_row, v):
    v = {k_: x for k_, x in v.items() if not k_.startswith("_")}
    return dict(
        postal_code=baseline_row["postal_code"],
        geographic_unit_fips=baseline_row["geographic_unit_fips"],
        percent_expected_vote=v["pev"],
        results_dem=v["dem"],
        results_gop=v["gop"],
        results_turnout=v["turnout"],
    )


def foreign_unit(rng, world, serial, new_state_p=0.0):
    """A unit that is not in the baseline: known or unknown county / district."""
    postal = choice(rng, world["states"])
    sfips = world["state_fips"][postal]
    if new_state_p and chance(rng, new_state_p):
        # a unit of a state that is not part of this election at all
        postal, sfips = "ZZ", "99"
    counties = sorted({r["county_fips"] for r in world["baseline"] if r["postal_code"] == postal})
    if postal == "ZZ":
        counties = []
    known_county = chance(rng, 0.6) and len(counties) > 0
    county = choice(rng, counties) if known_county else f"{sfips}{900 + serial % 90:03d}"
    ut = world["unit_type"]
    if world["district_election"]:
        dists = sorted({r["district"] for r in world["baseline"] if r["postal_code"] == postal})
        known_d = chance(rng, 0.6) and len(dists) > 0
        d = choice(rng, dists) if known_d else str(20 + serial % 9)
    else:
        d = None
        known_d = None
    if ut == "county":
        fips = county if not known_county else f"{sfips}{800 + serial % 90:03d}"
        known_county = False
        county = fips
    elif ut == "precinct":
        fips = f"{county}_x{serial:02d}"
    elif ut == "county-district":
        fips = f"{d}_{county}"
        if any(r["geographic_unit_fips"] == fips for r in world["baseline"]):
            fips = f"{d}_{sfips}{800 + serial % 90:03d}"
            county = fips.split("_")[1]
            known_county = False
    else:
        fips = f"{d}_{county}_x{serial:02d}"
    turnout = int(rng.integers(0, 4000)) if not chance(rng, 0.15) else 0  # listed by the provider, nothing tabulated yet
    dem = int(rng.integers(0, turnout + 1))
    gop = int(rng.integers(0, turnout - dem + 1))
    pev = choice(rng, [0, 37, 99, 100, 100, 112])
    row = dict(
        postal_code=postal,
        geographic_unit_fips=fips,
        percent_expected_vote=pev,
        results_dem=dem,
        results_gop=gop,
        results_turnout=turnout,
    )
    return row, dict(known_county=bool(known_county), known_district=known_d, county=county, district=d)


def schedule_night(streams, world, feed_knobs=None, threshold=100, tf_limits=(0.5, 2.0), extra_events=()):
    """Run the discrete-event loop over the fake parties and return (ops, stats).

    extra_events: iterable of (sim_minute, op_dict) injected by a check family (operator acts, fault arms,
    probe polls).  They go through the same heap, so their position relative to deliveries is decided by
    simulated time like everything else.
    """
    k = dict(DEFAULT_FEED_KNOBS)
    if feed_knobs:
        k.update(feed_knobs)
    rel, feed = streams.release, streams.feed
    heap = []
    seq = [0]

    def push(t, ev):
        seq[0] += 1
        heapq.heappush(heap, (float(t), seq[0], ev))

    stats = dict(released=0, delivered=0, lost=0, dup=0, overtaken=0, rescaled=0, foreign=0, kinds={})
    base_by = {r["geographic_unit_fips"]: r for r in world["baseline"]}
    # unit processes
    flap_prev = {}
    late_state = None
    if len(world["states"]) > 1 and chance(streams.sched, k.get("late_state_p", 0.0)):
        late_state = choice(streams.sched, world["states"])
        stats["late_state"] = late_state
    for fips in sorted(base_by):
        vs, kind = unit_versions(rel, world["truth"][fips], base_by[fips], k, threshold, tf_limits)
        if base_by[fips]["postal_code"] == late_state:
            for v in vs:
                v["t"] = k["horizon"] * 0.82 + v["t"] * 0.18
        stats["kinds"][kind] = stats["kinds"].get(kind, 0) + 1
        flap_prev[fips] = [(i, v) for i, v in enumerate(vs)]
        for i, v in enumerate(vs):
            push(v["t"], ("release", fips, i, v))
    n_foreign = int(feed.integers(k["n_foreign"][0], k["n_foreign"][1] + 1))
    for s in range(n_foreign):
        row, info = foreign_unit(feed, world, s + 1, new_state_p=k.get("foreign_new_state_p", 0.0))
        push(float(feed.uniform(1, k["horizon"])), ("foreign", row, info))
    # poll timer
    t = k["start_polls_after"] + float(streams.sched.uniform(*k["poll_every"]))
    n_polls = 0
    while t < k["horizon"] and n_polls < k["max_polls"]:
        push(t, ("poll",))
        n_polls += 1
        t += float(streams.sched.uniform(*k["poll_every"]))
    for t_ev, op in extra_events:
        push(t_ev, ("op", op))

    ops = []
    last_delivery = {}
    latest_delivered_version = {}
    now = 0.0
    n_events = 0
    while heap and n_events < k["max_events"]:
        now, s, ev = heapq.heappop(heap)
        n_events += 1
        kind = ev[0]
        if kind == "release":
            _, fips, i, v = ev
            stats["released"] += 1
            if chance(feed, k["p_loss"]):
                stats["lost"] += 1
                ops.append(dict(t=round(now, 3), k="lost", u=fips, ver=i))
                continue
            delay = float(feed.exponential(3.0))
            if chance(feed, k["p_reorder"]):
                delay += float(feed.exponential(90.0))  # long tail: may be overtaken by the next version
                t_del = now + delay
            else:
                t_del = max(now + delay, last_delivery.get(fips, 0.0) + 0.001)  # FIFO per unit
                last_delivery[fips] = t_del
            push(t_del, ("deliver", fips, i, v))
            if chance(feed, k["p_dup"]):
                push(t_del + float(feed.exponential(5.0)), ("dup", fips, i, v))
        elif kind == "deliver":
            _, fips, i, v = ev
            stats["delivered"] += 1
            if latest_delivered_version.get(fips, -1) > i:
                stats["overtaken"] += 1
            latest_delivered_version[fips] = i
            ops.append(dict(t=round(now, 3), k="deliver", u=fips, ver=i, row=feed_row(base_by[fips], v)))
            if i >= 1 and chance(feed, k.get("p_flap", 0.0)) and ev[0] == "deliver" and not v.get("_flapped"):
                prev = next((e for e in flap_prev.get(fips, []) if e[0] == i - 1), None)
                if prev is not None:
                    push(now + 1.0, ("deliver", fips, i - 1, dict(prev[1], _flapped=True)))
                    push(now + 2.0, ("deliver", fips, i, dict(v, _flapped=True)))
                    stats["flapped"] = stats.get("flapped", 0) + 1
            if chance(feed, k["p_rescale"]):
                new_pev = int(max(0, min(100, round(v["pev"] * float(feed.uniform(0.7, 1.3))))))
                push(now + float(feed.exponential(20.0)), ("rescale", fips, new_pev))
        elif kind == "dup":
            _, fips, i, v = ev
            stats["dup"] += 1
            ops.append(dict(t=round(now, 3), k="dup", u=fips, ver=i, row=feed_row(base_by[fips], v)))
        elif kind == "rescale":
            _, fips, pev = ev
            stats["rescaled"] += 1
            ops.append(dict(t=round(now, 3), k="rescale", u=fips, pev=pev))
        elif kind == "foreign":
            _, row, info = ev
            stats["foreign"] += 1
            ops.append(dict(t=round(now, 3), k="foreign", u=row["geographic_unit_fips"], row=row, info=info))
        elif kind == "poll":
            ops.append(dict(t=round(now, 3), k="poll", role="primary"))
        elif kind == "op":
            op = dict(ev[1])
            op["t"] = round(now, 3)
            ops.append(op)
    if k["final_poll"]:
        ops.append(dict(t=round(max(now, k["horizon"]), 3), k="poll", role="primary"))
    stats["sim_minutes"] = round(max(now, 0.0), 3)
    stats["events"] = n_events
    return ops, stats


# ------------------------------------------------------------------ results table (the feed's state)


class ResultsTable:
    """What the results provider's table holds at an instant: rows in delivery order."""

    COLS = ["postal_code", "geographic_unit_fips", "percent_expected_vote", "results_dem", "results_gop", "results_turnout"]

    def __init__(self):
        self.rows = []  # list of dict

    def apply(self, op):
        k = op["k"]
        if k in ("deliver", "foreign"):
            for i, r in enumerate(self.rows):
                if r["geographic_unit_fips"] == op["u"]:
                    self.rows[i] = dict(op["row"])
                    return
            self.rows.append(dict(op["row"]))
        elif k == "dup":
            self.rows.append(dict(op["row"]))
        elif k == "rescale":
            for r in self.rows:
                if r["geographic_unit_fips"] == op["u"]:
                    r["percent_expected_vote"] = op["pev"]
        elif k == "retract":
            self.rows = [r for r in self.rows if r["geographic_unit_fips"] != op["u"]]
        elif k == "set_row":
            for i, r in enumerate(self.rows):
                if r["geographic_unit_fips"] == op["u"]:
                    self.rows[i] = dict(op["row"])
                    return
            self.rows.append(dict(op["row"]))

    def unique_ids(self):
        ids = [r["geographic_unit_fips"] for r in self.rows]
        return len(ids) == len(set(ids))

    def snapshot(self):
        return [dict(r) for r in self.rows]
