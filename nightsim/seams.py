"""Seams: everything the code under test reaches outside its own process goes through here.

* sim bucket (versioned object store) behind `elexmodel.handlers.s3.boto3.client`, `.get_session`,
  `.TransferManager` (module globals of handlers/s3.py -- patched from outside, no hook in /repo);
* solver seam: `elexmodel.models.ConformalElectionModel.QuantileRegressionSolver` replaced by a subclass that
  logs every fit and can fail the k-th one (SolverError / cvxpy inaccuracy warning);
* audit hook: records local file writes made while a poll is running;
* environment seam: `elexmodel.client.APP_ENV` (read at import and re-exported by name).
"""
import datetime as _dt
import io
import os
import sys
import warnings

import numpy as np

UTC = _dt.timezone.utc
EPOCH = _dt.datetime(2022, 11, 8, 23, 0, 0, tzinfo=UTC)  # polls close

# ---------------------------------------------------------------------------------------- sim bucket


class SimPutError(Exception):
    pass


class SimDownloadError(Exception):
    pass


class SimBucket:
    """In-memory versioned object store.  One instance per night (survives runner crash-restart)."""

    def __init__(self, page_size=1000, tick_seconds=1.0):
        self.objects = {}  # key -> list of versions, oldest first
        self.page_size = int(page_size)
        self.now = EPOCH
        self.tick = _dt.timedelta(seconds=tick_seconds)
        self.put_log = []  # every attempted put: dict(key, bucket, ok, n, content_type)
        self.get_log = []
        self.list_log = []
        self.put_fault_at = None  # index (in put attempts since arm) that fails
        self.put_fault_kind = "raise"
        self.put_attempts = 0
        self.failing_versions = set()
        self.vid = 0
        self.download_log = []

    # -- clock
    def set_time_minutes(self, minutes):
        t = EPOCH + _dt.timedelta(minutes=float(minutes))
        if t > self.now:
            self.now = t

    def _stamp(self):
        self.now = self.now + self.tick
        return self.now

    # -- raw access used by the simulator itself (not by the code under test)
    def seed_object(self, key, body, when=None):
        if isinstance(body, str):
            body = body.encode("utf-8")
        self.vid += 1
        ts = when if when is not None else self._stamp()
        v = dict(Key=key, VersionId=f"v{self.vid:06d}", LastModified=ts, Body=body, Size=len(body))
        self.objects.setdefault(key, []).append(v)
        return v

    def versions_newest_first(self, prefix):
        out = []
        for key in sorted(self.objects):
            if key.startswith(prefix):
                out.extend(self.objects[key])
        # newest first by modification time; ties by version id descending (stable, total)
        out.sort(key=lambda v: (v["LastModified"], v["VersionId"]), reverse=True)
        return out

    # -- S3 API surface
    def put_object(self, **kw):
        idx = self.put_attempts
        self.put_attempts += 1
        key = kw.get("Key")
        rec = dict(key=key, bucket=kw.get("Bucket"), n=idx, content_type=kw.get("ContentType"), ok=True)
        self.put_log.append(rec)
        if self.put_fault_at is not None and idx == self.put_fault_at:
            rec["ok"] = False
            if self.put_fault_kind == "raise":
                raise SimPutError(f"injected put failure at put #{idx} ({key})")
            return {}
        body = kw.get("Body")
        self.seed_object(key, body if body is not None else b"")
        return {"ResponseMetadata": {"HTTPStatusCode": 200}, "VersionId": f"v{self.vid:06d}"}

    def get_object(self, **kw):
        key = kw.get("Key")
        vid = kw.get("VersionId")
        self.get_log.append(dict(key=key, version=vid))
        vs = self.objects.get(key)
        if not vs:
            raise KeyError(f"NoSuchKey: {key}")
        if vid is None:
            v = vs[-1]
        else:
            m = [x for x in vs if x["VersionId"] == vid]
            if not m:
                raise KeyError(f"NoSuchVersion: {key}@{vid}")
            v = m[0]
        if vid is not None and vid in self.failing_versions:
            raise SimDownloadError(f"injected download failure {vid}")
        return {"Body": io.BytesIO(v["Body"]), "LastModified": v["LastModified"], "ContentLength": v["Size"],
                "VersionId": v["VersionId"]}

    def head_object(self, **kw):
        r = self.get_object(**kw)
        return {"ContentLength": r["ContentLength"], "LastModified": r["LastModified"]}

    def list_object_versions(self, **kw):
        prefix = kw.get("Prefix", "")
        km, vm = kw.get("KeyMarker"), kw.get("VersionIdMarker")
        allv = self.versions_newest_first(prefix)
        start = 0
        if vm is not None:
            for i, v in enumerate(allv):
                if v["VersionId"] == vm and v["Key"] == km:
                    start = i + 1
                    break
        page = allv[start : start + self.page_size]
        truncated = start + self.page_size < len(allv)
        self.list_log.append(dict(prefix=prefix, start=start, n=len(page), truncated=truncated))
        resp = {"IsTruncated": truncated, "Name": kw.get("Bucket"), "Prefix": prefix}
        if page:
            resp["Versions"] = [
                dict(Key=v["Key"], VersionId=v["VersionId"], LastModified=v["LastModified"], Size=v["Size"],
                     IsLatest=(v is self.objects[v["Key"]][-1]))
                for v in page
            ]
        if truncated:
            resp["NextKeyMarker"] = page[-1]["Key"]
            resp["NextVersionIdMarker"] = page[-1]["VersionId"]
        return resp


class _Events:
    def register_first(self, *a, **k):
        pass

    def register_last(self, *a, **k):
        pass

    def register(self, *a, **k):
        pass

    def unregister(self, *a, **k):
        pass


class _Meta:
    def __init__(self):
        self.events = _Events()
        self.region_name = "us-east-1"

        class _Cfg:
            max_pool_connections = 10
            response_checksum_validation = "when_required"
            request_checksum_calculation = "when_required"

        self.config = _Cfg()


class SimS3Client:
    """What boto3.client('s3') / get_session().create_client('s3') return inside the simulator."""

    def __init__(self, bucket):
        self._b = bucket
        self.meta = _Meta()

    def put_object(self, **kw):
        return self._b.put_object(**kw)

    def get_object(self, **kw):
        return self._b.get_object(**kw)

    def head_object(self, **kw):
        return self._b.head_object(**kw)

    def list_object_versions(self, **kw):
        return self._b.list_object_versions(**kw)


class _FutureMeta:
    def __init__(self):
        self.size = None

    def provide_transfer_size(self, size):
        self.size = size


class SimFuture:
    def __init__(self, mgr, bucket, key, fileobj, extra_args):
        self.mgr, self.bucket, self.key, self.fileobj, self.extra = mgr, bucket, key, fileobj, dict(extra_args or {})
        self.meta = _FutureMeta()
        self.state = "pending"
        self.exc = None

    def _complete(self):
        if self.state != "pending":
            return
        try:
            r = self.mgr.client.get_object(Bucket=self.bucket, Key=self.key, **self.extra)
            self.fileobj.write(r["Body"].read())
            self.state = "done"
        except Exception as e:  # noqa: BLE001 - the future carries whatever the transfer raised
            self.exc = e
            self.state = "failed"
        self.mgr.completion_log.append((self.extra.get("VersionId"), self.state))

    def result(self):
        # "concurrent" completion: everything pending completes, in an order chosen by the simulator
        self.mgr.complete_pending()
        if self.state == "failed":
            raise self.exc
        return None

    def done(self):
        return self.state != "pending"


class SimTransferManager:
    """Stand-in for s3transfer.manager.TransferManager: futures complete under scheduler control."""

    order_rng = None  # np.random.Generator owned by the night (storage stream), or None for FIFO
    instances = []

    def __init__(self, client, *a, **k):
        self.client = client
        self.pending = []
        self.completion_log = []
        SimTransferManager.instances.append(self)

    def download(self, bucket, key, fileobj, extra_args=None, subscribers=None):
        f = SimFuture(self, bucket, key, fileobj, extra_args)
        for s in subscribers or []:
            if hasattr(s, "on_queued"):
                s.on_queued(f)
        self.pending.append(f)
        return f

    def complete_pending(self):
        pend = [f for f in self.pending if f.state == "pending"]
        if SimTransferManager.order_rng is not None and len(pend) > 1:
            perm = SimTransferManager.order_rng.permutation(len(pend))
            pend = [pend[int(i)] for i in perm]
        for f in pend:
            f._complete()
        self.pending = []

    def shutdown(self, *a, **k):
        pass


class _FakeBoto3:
    def __init__(self, holder):
        self._h = holder

    def client(self, name, *a, **k):
        assert name == "s3"
        self._h.client_creations += 1
        return SimS3Client(self._h.bucket)


class _FakeSession:
    def __init__(self, holder):
        self._h = holder

    def create_client(self, name, *a, **k):
        assert name == "s3"
        self._h.client_creations += 1
        return SimS3Client(self._h.bucket)


class StorageSeam:
    """Installs / removes the storage seam.  `bucket` can be swapped per night."""

    def __init__(self):
        self.bucket = SimBucket()
        self.client_creations = 0
        self.installed = False
        self.real_tm = False

    def install(self, real_transfer_manager=False):
        from elexmodel.handlers import s3 as s3mod

        if not self.installed:
            self._orig = (s3mod.boto3, s3mod.get_session, s3mod.TransferManager)
        s3mod.boto3 = _FakeBoto3(self)
        s3mod.get_session = lambda: _FakeSession(self)
        if real_transfer_manager:
            s3mod.TransferManager = self._orig[2]
        else:
            s3mod.TransferManager = SimTransferManager
        self.installed = True
        self.real_tm = real_transfer_manager

    def remove(self):
        if self.installed:
            from elexmodel.handlers import s3 as s3mod

            s3mod.boto3, s3mod.get_session, s3mod.TransferManager = self._orig
            self.installed = False

    def new_night(self, page_size=1000):
        self.bucket = SimBucket(page_size=page_size)
        SimTransferManager.instances = []
        return self.bucket


STORAGE = StorageSeam()

# ---------------------------------------------------------------------------------------- environment


def set_app_env(value):
    """APP_ENV is read at import by file_utils and re-exported by name into client.py (the only module
    that tests it)."""
    import elexmodel.client as c

    c.APP_ENV = value


# ---------------------------------------------------------------------------------------- solver seam


class SolverSeam:
    """Counts every fit made through the conformal models' solver class and can fail the k-th."""

    def __init__(self):
        self.installed = False
        self.calls = []  # dicts: idx, obj id, arg digests, normalize_weights, raised
        self.fault_at = None
        self.fault_kind = None
        self.record_args = False
        self.fired = 0
        self.ref_at = None
        self.n_solves = 0

    def reset(self, fault_at=None, fault_kind=None, record_args=False, ref_at=None):
        self.calls = []
        self.fault_at = fault_at
        self.fault_kind = fault_kind
        self.record_args = record_args
        self.fired = 0
        self.n_solves = 0
        self.ref_at = ref_at  # reference run: the fit containing solve #ref_at is performed directly without weight normalisation

    def install(self):
        if self.installed:
            return
        import cvxpy
        import elexmodel.models.ConformalElectionModel as cem
        from elexsolver.QuantileRegressionSolver import QuantileRegressionSolver as RealQR

        seam = self
        try:
            from cvxpy.utilities.warn import warn as _cvx_warn
        except Exception:  # noqa: BLE001 - older cvxpy: warnings come from cvxpy.problems.problem
            _cvx_warn = None

        class SimQuantileRegressionSolver(RealQR):
            """Real solver; every fit call and every single-quantile solve inside it is logged; the k-th SOLVE of the run can
            be made to fail (once), at the place where a real solver fails: inside the solve, after earlier quantiles of
            the same fit call have already been stored on the object."""

            _sim_serial = [0]

            def __init__(self):
                super().__init__()
                SimQuantileRegressionSolver._sim_serial[0] += 1
                self._sim_id = SimQuantileRegressionSolver._sim_serial[0]

            def _sim_solve_hook(self):
                k = seam.n_solves
                seam.n_solves += 1
                if seam.calls:
                    seam.calls[-1]["solves"].append(k)
                if seam.fault_at is not None and k == seam.fault_at and seam.fired == 0:
                    seam.fired += 1
                    if seam.calls:
                        seam.calls[-1]["raised"] = seam.fault_kind
                    if seam.fault_kind == "solver_error":
                        raise cvxpy.error.SolverError("injected: solver failed")
                    # the inaccuracy warning of cvxpy, emitted the way the INSTALLED cvxpy emits it: recent versions
                    # (cvxpy.utilities.warn) attribute their warnings to the first frame outside the cvxpy package, i.e. to the
                    # calling solver module, older ones to cvxpy.problems.problem.  The library must turn either into a retry.
                    msg = ("Solution may be inaccurate. Try another solver, adjusting the solver settings, "
                           "or solve with verbose=True for more information.")
                    if seam.fault_kind == "inaccurate_warning_legacy" or _cvx_warn is None:
                        warnings.warn_explicit(msg, UserWarning, filename="cvxpy/problems/problem.py", lineno=1,
                                               module="cvxpy.problems.problem", registry={})
                    else:
                        # in a deployment the first frame outside cvxpy is elexsolver's solver module (this seam's own frames do not
                        # exist there): attribute the warning to it explicitly, file name and module name as Python would
                        import elexsolver.QuantileRegressionSolver as _qrs_mod

                        warnings.warn_explicit(msg, UserWarning, filename=_qrs_mod.__file__, lineno=1, module=_qrs_mod.__name__,
                                               registry=_qrs_mod.__dict__.setdefault("__warningregistry__", {}))

            def _fit(self, *a, **k):
                self._sim_solve_hook()
                return super()._fit(*a, **k)

            def _fit_with_regularization(self, *a, **k):
                self._sim_solve_hook()
                return super()._fit_with_regularization(*a, **k)

            def fit(self, x, y, *args, **kwargs):
                idx = len(seam.calls)
                rec = dict(idx=idx, obj=self._sim_id, n_pos=len(args), kw=sorted(kwargs), raised=None, solves=[], first_solve=seam.n_solves)
                if seam.record_args:
                    rec["x"] = np.array(x, copy=True)
                    rec["y"] = np.array(y, copy=True)
                    rec["kwargs"] = {
                        k: (np.array(v, copy=True) if isinstance(v, np.ndarray) else v) for k, v in kwargs.items()
                    }
                    rec["args"] = args
                seam.calls.append(rec)
                taus = kwargs.get("taus", args[0] if args else 0.5)
                n_taus = 1 if isinstance(taus, float) else len(list(taus))
                if seam.ref_at is not None and seam.n_solves <= seam.ref_at < seam.n_solves + n_taus and kwargs.get("normalize_weights", True):
                    kwargs = dict(kwargs, normalize_weights=False)
                    rec["ref_direct"] = True
                r = super().fit(x, y, *args, **kwargs)
                rec["coef"] = np.array(self.coefficients, copy=True) if seam.record_args else None
                return r

        self._cem = cem
        self._orig = cem.QuantileRegressionSolver
        self.cls = SimQuantileRegressionSolver
        cem.QuantileRegressionSolver = SimQuantileRegressionSolver
        self.installed = True

    def remove(self):
        if self.installed:
            self._cem.QuantileRegressionSolver = self._orig
            self.installed = False


SOLVER = SolverSeam()

# ---------------------------------------------------------------------------------------- file writes

_AUDIT = {"installed": False, "sink": None}


def _audit(event, args):
    sink = _AUDIT["sink"]
    if sink is None:
        return
    if event == "open":
        path, mode, flags = args[0], args[1], args[2]
        writing = False
        if isinstance(mode, str) and any(c in mode for c in "wax+"):
            writing = True
        if isinstance(flags, int) and flags & (os.O_WRONLY | os.O_RDWR | os.O_CREAT | os.O_APPEND | os.O_TRUNC):
            writing = True
        if writing and isinstance(path, (str, bytes)):
            p = path.decode() if isinstance(path, bytes) else path
            if p not in ("/dev/null",):
                sink.append(("open", p))
    elif event in ("os.mkdir", "os.rename", "os.remove", "os.rmdir"):
        sink.append((event, str(args[0])))


def install_audit():
    if not _AUDIT["installed"]:
        sys.addaudithook(_audit)
        _AUDIT["installed"] = True


class record_file_writes:
    def __enter__(self):
        install_audit()
        self.log = []
        _AUDIT["sink"] = self.log
        return self.log

    def __exit__(self, *a):
        _AUDIT["sink"] = None
        return False
