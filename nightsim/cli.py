"""Command line of the checks.  Executed by path from bin/check (never via `python -m`, so that no module is
loaded twice)."""
import argparse
import json
import os
import sys
import time
import traceback

HERE = os.path.dirname(os.path.abspath(__file__))
VERIF = os.path.dirname(HERE)
if VERIF not in sys.path:
    sys.path.insert(0, VERIF)

from nightsim import framework as fw  # noqa: E402


def main(argv=None):
    ap = argparse.ArgumentParser()
    ap.add_argument("prop")
    ap.add_argument("--tier", default=os.environ.get("VERIF_TIER") or "quick", choices=["quick", "thorough"])
    ap.add_argument("--replay")
    ap.add_argument("--nights", type=int)
    ap.add_argument("--workers", type=int)
    ap.add_argument("--wall", type=float)
    ap.add_argument("--quiet", action="store_true")
    ap.add_argument("--no-shrink", action="store_true")
    ap.add_argument("--no-evidence", action="store_true")
    ap.add_argument("--digests", action="store_true", help="print one line per night: idx digest (determinism self-test)")
    ap.add_argument("--max-report", type=int, default=3)
    ap.add_argument("--only", help="comma separated night indices")
    ap.add_argument("--no-post", action="store_true")
    a = ap.parse_args(argv)
    prop = a.prop.upper()
    t_start = time.time()
    try:
        fw.prepare_process()
        family = fw.load_family(prop)
        if a.replay:
            res, hit = fw.replay_file(family, a.replay)
            if hit is not None:
                if not a.quiet:
                    print(json.dumps(hit, default=str)[:2000])
                print(f"VIOLATION property={prop} replay={a.replay}")
                return 1
            if not a.quiet:
                print(f"replay did not reproduce a violation ({len(res['violations'])} other violations)")
            return 0

        # 1. known findings: replay each listed finding's file against the current tree
        known = fw.load_known(prop)
        known_reproduced = []
        for e in known:
            rp = e.get("replay")
            if not rp:
                continue
            rp_abs = os.path.join(VERIF, rp)
            if not os.path.exists(rp_abs):
                raise fw.HarnessError(f"known finding {e['id']} lists a replay file that does not exist: {rp}")
            _, hit = fw.replay_file(family, rp_abs)
            if hit is not None:
                known_reproduced.append(e["id"])
                print(f"KNOWN-FINDING: property={prop} {e['id']}: {e['what']}")
            e["_live"] = hit is not None

        # 1b. regression replays: minimal failing nights of defects that were repaired in /repo (`fixed:` entries).
        # They suppress nothing: if one fails again it is reported as a violation.
        regress_hits = []
        rdir = os.path.join(VERIF, "regress")
        n_regress = 0
        if os.path.isdir(rdir):
            for fn in sorted(os.listdir(rdir)):
                if fn.startswith(prop + "-") and fn.endswith(".json"):
                    n_regress += 1
                    _, hit = fw.replay_file(family, os.path.join(rdir, fn))
                    if hit is not None:
                        regress_hits.append((os.path.join(rdir, fn), hit))
        for path, hit in regress_hits:
            print(f"violation (regression of a repaired defect): clause={hit['clause']} :: {hit['message'][:400]}")
            print(f"VIOLATION property={prop} replay={path}")

        # 2. the seeded search
        family, seed, results, harness_errors, wall = fw.run_batch(
            prop, a.tier, nights=a.nights, workers=a.workers, wall_s=a.wall,
            indices=[int(x) for x in a.only.split(",")] if a.only else None,
        )
        if harness_errors:
            for idx, he in harness_errors[:3]:
                print(f"HARNESS-ERROR: night {idx}\n{he}")
            return 2
        if not results:
            print("HARNESS-ERROR: no night completed")
            return 2
        if a.digests:
            for idx in sorted(results):
                print(f"DIGEST {idx} {results[idx]['digest']}")

        # 3. classify violations: known finding (all match keys equal) or new
        new = []  # (idx, vdict, spec)
        suppressed = 0
        seen_sigs = set()
        for idx in sorted(results):
            r = results[idx]
            for v in r["violations"]:
                if any(e.get("_live", True) and fw.matches_known(v, e) for e in known if e.get("suppress", True)):
                    suppressed += 1
                    continue
                s = fw.sig_of_dict(v)
                if s in seen_sigs:
                    continue
                seen_sigs.add(s)
                new.append((idx, v, r["spec"]))
        extra_cov = {}
        if hasattr(family, "post_batch") and not a.no_post and not a.only:
            for idx, v, spec in family.post_batch(seed, a.tier, results, extra_cov):
                if any(e.get("_live", True) and fw.matches_known(v, e) for e in known if e.get("suppress", True)):
                    suppressed += 1
                    continue
                if fw.sig_of_dict(v) not in seen_sigs:
                    seen_sigs.add(fw.sig_of_dict(v))
                    new.append((idx, v, spec))
        reported = 0
        for idx, v, spec in new[: a.max_report]:
            final_spec = spec
            if not a.no_shrink:
                try:
                    final_spec = fw.shrink(family, spec, v)
                except Exception:  # noqa: BLE001 - shrinking is best effort; report the unshrunk night
                    final_spec = spec
            tag = f"{seed}-{idx}-{reported}"
            path = fw.write_replay(prop, final_spec, v, tag)
            ok, out = fw.replay_in_fresh_process(prop, path)
            if not ok and final_spec is not spec:
                path = fw.write_replay(prop, spec, v, tag)
                ok, out = fw.replay_in_fresh_process(prop, path)
            if not ok:
                print(f"HARNESS-ERROR: violation of {prop} in night {idx} did not replay in a fresh process:\n{json.dumps(v, default=str)[:1500]}\n{out}")
                return 2
            print(f"violation: clause={v['clause']} flags={json.dumps(v.get('flags'), sort_keys=True, default=str)} :: {v['message'][:600]}")
            print(f"VIOLATION property={prop} replay={path}")
            reported += 1
        if not a.no_evidence:
            fw.write_evidence(family, a.tier, seed, results, time.time() - t_start, len(new) + len(regress_hits), known_reproduced,
                              extra_cov=dict(extra_cov, known_finding_matches_suppressed=suppressed, regression_replays_run=n_regress, regression_replays_failing=len(regress_hits)))
        if not a.quiet:
            tot = sum(r["stats"]["polls"] for r in results.values())
            print(f"{prop} {a.tier}: nights={len(results)} polls={tot} new_violations={len(new)} "
                  f"known_matches={suppressed} wall={time.time() - t_start:.1f}s")
        return 1 if (new or regress_hits) else 0
    except fw.HarnessError as e:
        print(f"HARNESS-ERROR: {e}")
        return 2
    except Exception:  # noqa: BLE001
        print("HARNESS-ERROR: " + traceback.format_exc())
        return 2


if __name__ == "__main__":
    sys.exit(main())
