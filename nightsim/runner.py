"""The model runner: drives the real ModelClient with the current state of the results table and the
operator's current configuration.  Everything under `elexmodel` is real code from <repo>/src."""
import copy
import hashlib
import io
import logging
import os
import traceback
import warnings

import numpy as np
import pandas as pd

from . import seams

STR_COLS = ["postal_code", "county_fips", "geographic_unit_fips", "geographic_unit_type", "county_classification", "district"]
FEED_COLS = ["postal_code", "geographic_unit_fips", "percent_expected_vote", "results_dem", "results_gop", "results_turnout"]

DEFAULT_PROFILE = dict(
    pi_method="nonparametric",
    estimands=["dem"],
    prediction_intervals=[0.7, 0.9],
    threshold=100,
    aggregates=["postal_code", "unit"],
    features=[],
    fixed_effects=[],
    model_parameters={},
    handle_unreporting="drop",
    save_output=[],
    lhs_called_contests=[],
    rhs_called_contests=[],
    stop_model_call=[],
    app_env="local",
)


def quiet_logging():
    logging.getLogger("elexmodel").setLevel(logging.CRITICAL)
    logging.getLogger("elexsolver").setLevel(logging.CRITICAL)
    logging.disable(logging.CRITICAL)


def baseline_frame(world):
    df = pd.DataFrame(world["baseline"])
    for c in STR_COLS:
        if c in df.columns:
            df[c] = df[c].astype(str)
    return df


def feed_frame(rows, extra_cols=None):
    cols = FEED_COLS + list(extra_cols or [])
    if len(rows) == 0:
        df = pd.DataFrame({c: pd.Series([], dtype=("str" if c in ("postal_code", "geographic_unit_fips") else "int64")) for c in cols})
        return df
    df = pd.DataFrame(rows)[cols]
    df["postal_code"] = df["postal_code"].astype(str)
    df["geographic_unit_fips"] = df["geographic_unit_fips"].astype(str)
    return df


def _col_bytes(s):
    if pd.api.types.is_bool_dtype(s.dtype):
        return np.asarray(s, dtype=np.int8).tobytes()
    if pd.api.types.is_numeric_dtype(s.dtype):
        a = np.asarray(s, dtype=np.float64)
        a = np.where(np.isnan(a), np.float64("nan"), a)  # canonical NaN
        a = a + 0.0  # -0.0 stays -0.0; fine (bit-level identity is what we want)
        return a.tobytes()
    return ("\x1f".join("" if v is None else str(v) for v in s.tolist())).encode("utf-8", "replace")


def table_digest(df):
    h = hashlib.sha256()
    h.update(("|".join(map(str, df.columns)) + f"#{len(df)}").encode())
    for c in df.columns:
        h.update(_col_bytes(df[c]))
    return h.hexdigest()[:24]


def tables_digest(tables):
    h = hashlib.sha256()
    for name in sorted(tables):
        h.update(name.encode())
        h.update(table_digest(tables[name]).encode())
    return h.hexdigest()[:24]


class PollRecord:
    __slots__ = ("ok", "exc_type", "exc_msg", "exc_tb", "tables", "puts", "file_writes", "n_fits", "digest", "profile",
                 "rows", "role", "extra", "client", "nat_sum")

    def summary(self):
        return dict(ok=self.ok, exc=self.exc_type, msg=(self.exc_msg or "")[:160], digest=self.digest,
                    n_rows=len(self.rows), role=self.role)


def exc_name(e):
    t = type(e)
    return f"{t.__module__}.{t.__qualname__}"


def client_kwargs(profile):
    kw = dict(
        pi_method=profile["pi_method"],
        aggregates=list(profile["aggregates"]),
        features=list(profile["features"]),
        fixed_effects=copy.deepcopy(profile["fixed_effects"]),
        handle_unreporting=profile["handle_unreporting"],
        save_output=list(profile["save_output"]),
    )
    if profile["pi_method"] == "bootstrap" or profile.get("pass_calls"):
        kw["lhs_called_contests"] = list(profile.get("lhs_called_contests", []))
        kw["rhs_called_contests"] = list(profile.get("rhs_called_contests", []))
        kw["stop_model_call"] = list(profile.get("stop_model_call", []))
    return kw


def run_poll(world, rows, profile, client=None, role="primary", shared_args=None, extra_feed_cols=None,
             national_summary=None, keep_client=True):
    """One poll.  Returns a PollRecord.  `shared_args` (dict) lets the caller re-use the very same argument
    objects across polls (preprocessed frame, config) -- a scheduled choice for C12."""
    from elexmodel.client import ModelClient

    p = dict(DEFAULT_PROFILE)
    p.update(profile)
    rec = PollRecord()
    rec.profile, rec.rows, rec.role, rec.extra, rec.nat_sum = p, rows, role, {}, None
    if client is None:
        client = ModelClient()
    rec.client = client if keep_client else None
    seams.set_app_env(p["app_env"])
    if shared_args is not None and "preprocessed" in shared_args:
        pre = shared_args["preprocessed"]
        cfg = shared_args["config"]
    else:
        pre = baseline_frame(world)
        cfg = copy.deepcopy(world["config"])
        if p.get("config_patch"):
            # the operator hands over another configuration for the same election (edited between polls)
            cfg[world["election_id"]][0].update(copy.deepcopy(p["config_patch"]))
        if shared_args is not None:
            shared_args["preprocessed"] = pre
            shared_args["config"] = cfg
    # model_parameters: a fresh copy per poll, unless the caller re-uses its argument objects (then the very same dict
    # is passed again, as a long-running pipeline would); `omit_model_parameters` exercises the keyword's default
    if shared_args is not None:
        mparams = shared_args.setdefault("model_parameters", copy.deepcopy(p["model_parameters"]))
    else:
        mparams = copy.deepcopy(p["model_parameters"])
    extra_kw = {} if p.get("omit_model_parameters") else dict(model_parameters=mparams)
    cur = feed_frame(rows, extra_feed_cols)
    if shared_args is not None and shared_args.get("inplace_feed"):
        # a pipeline that keeps ONE live frame and overwrites its raw columns in place between polls (possible whenever the
        # set and order of rows is unchanged); whatever the library may have written into that object stays there
        old = shared_args.get("feed")
        if old is not None and len(old) == len(cur) and old["geographic_unit_fips"].tolist() == cur["geographic_unit_fips"].tolist():
            for c in cur.columns:
                old[c] = cur[c].to_numpy()
            cur = old
            rec.extra["feed_frame_reused_in_place"] = True
        else:
            shared_args["feed"] = cur
    arr = p.get("arrival")
    if arr and shared_args is None:
        # how the data arrives: same content, other container details (row order, index labels, column order, an extra column)
        g = np.random.default_rng(int(arr["seed"]))
        if arr.get("feed_index") and len(cur):
            cur = cur.iloc[g.permutation(len(cur))]
            cur.index = (np.zeros(len(cur), dtype=int) if arr["feed_index"] == "all_equal" else
                         np.arange(len(cur)) % 3 if arr["feed_index"] == "repeating" else np.arange(len(cur))[::-1] * 7 + 5)
        if arr.get("feed_extra_col"):
            cur = cur.assign(source_tag=[f"s{i % 4}" for i in range(len(cur))])
        if arr.get("feed_cols"):
            cur = cur[[cur.columns[int(i)] for i in g.permutation(len(cur.columns))]]
        if arr.get("base_index"):
            pre = pre.iloc[g.permutation(len(pre))]
            pre.index = (np.arange(len(pre)) % 2 if arr["base_index"] == "repeating" else np.arange(len(pre))[::-1] * 3 + 11)
        if arr.get("base_cols"):
            pre = pre[[pre.columns[int(i)] for i in g.permutation(len(pre.columns))]]
        rec.extra["arrival"] = {k_: v_ for k_, v_ in arr.items() if v_}
    if p.get("feed_as_lists"):
        # the documented other form of the feed argument: a list of lists whose first element names the columns
        cur = [list(cur.columns)] + [list(r) for r in cur.itertuples(index=False, name=None)]
        rec.extra["feed_passed_as_lists"] = True
    bucket = seams.STORAGE.bucket
    put0 = len(bucket.put_log)
    fit0 = len(seams.SOLVER.calls)
    rec.ok, rec.exc_type, rec.exc_msg, rec.exc_tb, rec.tables = True, None, None, None, {}
    with seams.record_file_writes() as fw:
        try:
            with warnings.catch_warnings():
                # do not let *our* process-level filters hide what the library turns into errors:
                # only silence pandas/numpy performance chatter
                warnings.simplefilter("ignore", category=FutureWarning)
                warnings.simplefilter("ignore", category=RuntimeWarning)
                warnings.simplefilter("ignore", category=DeprecationWarning)
                warnings.simplefilter("ignore", category=pd.errors.PerformanceWarning)
                # `request_ids`: the request names another election / office / unit type than the world's (an operator
                # mistake that the library rejects); `summary_only`: no estimate request at all in this poll, only the
                # national-summary call on the client kept from the earlier polls
                ids = dict(election_id=world["election_id"], office=world["office"], unit_type=world["unit_type"])
                ids.update(p.get("request_ids") or {})
                if not p.get("summary_only"):
                    kw = dict(prediction_intervals=list(p["prediction_intervals"]), percent_reporting_threshold=p["threshold"],
                              geographic_unit_type=ids["unit_type"], **extra_kw, **client_kwargs(p))
                    if p.get("omit_defaults"):
                        # call style: every keyword whose value is the documented default is left out
                        from elexmodel import client as _cm

                        defaults = dict(prediction_intervals=[0.7, 0.9], percent_reporting_threshold=100, geographic_unit_type="county",
                                        pi_method="nonparametric", features=[], fixed_effects={}, handle_unreporting="drop",
                                        lhs_called_contests=[], rhs_called_contests=[], stop_model_call=[], model_parameters={},
                                        aggregates=list(getattr(_cm, "DEFAULT_AGGREGATES", {}).get(ids["office"], [])) or None)
                        dropped = [k_ for k_, v_ in kw.items() if k_ in defaults and (v_ == defaults[k_] or (k_ == "fixed_effects" and v_ in ([], {})))]
                        for k_ in dropped:
                            kw.pop(k_)
                        rec.extra["defaults_omitted"] = sorted(dropped)
                    res = client.get_estimates(
                        cur,
                        ids["election_id"],
                        ids["office"],
                        list(p["estimands"]),
                        raw_config=cfg,
                        preprocessed_data=pre,
                        **kw,
                    )
                    rec.tables = {k: v.copy() for k, v in res.items()}
                if national_summary is not None:
                    ns = client.get_national_summary_votes_estimates(
                        national_summary.get("weights"), national_summary.get("base", 0), list(national_summary["alphas"])
                    )
                    rec.nat_sum = ns.copy()
        except Exception as e:  # noqa: BLE001 - the outcome of the poll is data for the checkers
            rec.ok = False
            rec.exc_type = exc_name(e)
            rec.exc_msg = str(e)
            rec.exc_tb = traceback.format_exc(limit=12)
    rec.puts = [dict(x) for x in bucket.put_log[put0:]]
    rec.file_writes = list(fw)
    rec.n_fits = len(seams.SOLVER.calls) - fit0
    h = hashlib.sha256()
    h.update(tables_digest(rec.tables).encode())
    h.update(str((rec.ok, rec.exc_type)).encode())
    if rec.nat_sum is not None:
        h.update(table_digest(rec.nat_sum).encode())
    rec.digest = h.hexdigest()[:24]
    return rec
