"""Operator profile: the seeded choice of estimator, estimands, levels, aggregates, features, thresholds,
blocklists and model parameters for one night (swarm style: everything varies per night)."""
from .streams import chance, choice

ALPHA_EDGE = [0.01, 0.05, 0.5, 0.7, 0.8, 0.9, 0.95, 0.99]

DEFAULT_PROFILE_KNOBS = dict(
    estimators=["nonparametric", "gaussian", "bootstrap"],
    vote_estimands=["dem", "gop", "turnout"],
    max_estimands=2,
    n_alphas=(1, 3),
    alpha_range=(0.3, 0.97),
    alpha_edge_p=0.3,
    thresholds=[100, 100, 90, 60, 30],
    policies=["drop", "zero"],
    features_p=0.5,
    fixed_effects_p=0.3,
    outlier_models_p=0.1,
    blocklist_p=0.2,
    lambda_p=0.05,
    B=(2, 60),
    tf_limits=[(0.5, 2.0), (0.5, 2.0), (0.7, 1.5), (0.2, 5.0), (0, 100.0), (0.0, 2.0)],  # 0 is a legal (and falsy) limit
    agg_subset=True,
    always_unit=False,
    always_state=False,
)


def draw_alphas(rng, k):
    n = int(rng.integers(k["n_alphas"][0], k["n_alphas"][1] + 1))
    out = []
    while len(out) < n:
        if chance(rng, k["alpha_edge_p"]):
            a = choice(rng, ALPHA_EDGE)
        else:
            a = round(float(rng.uniform(*k["alpha_range"])), int(rng.integers(2, 5)))
        if 0 < a < 1 and a not in out:
            out.append(a)
    if n >= 2 and chance(rng, 0.25):
        # two levels that agree to two decimals (0.99 / 0.995, 0.9 / 0.896): distinct requests that are easy to conflate
        b = round(out[0] + choice(rng, [-0.004, 0.004, 0.005, -0.005]), 3)
        if 0 < b < 1 and b not in out:
            out[1] = b
    return out


def make_profile(rng, world, knobs=None):
    k = dict(DEFAULT_PROFILE_KNOBS)
    if knobs:
        k.update(knobs)
    sub = world["config"][world["election_id"]][0]
    pi = choice(rng, k["estimators"])
    if pi == "bootstrap":
        estimands = ["margin"]
    else:
        n = int(rng.integers(1, k["max_estimands"] + 1))
        perm = rng.permutation(len(k["vote_estimands"]))[:n]
        estimands = [k["vote_estimands"][int(i)] for i in perm]
    alphas = draw_alphas(rng, k)
    thr = choice(rng, k["thresholds"])
    policy = choice(rng, k["policies"])
    all_aggs = list(sub["aggregates"])
    if k["agg_subset"]:
        aggs = [a for a in all_aggs if chance(rng, 0.6)]
        perm = rng.permutation(len(aggs))
        aggs = [aggs[int(i)] for i in perm]
    else:
        aggs = list(all_aggs)
    if k["always_unit"] and "unit" not in aggs:
        aggs.append("unit")
    if (k["always_state"] or pi == "bootstrap") and "postal_code" not in aggs:
        aggs.insert(0, "postal_code")
    if not aggs:
        aggs = ["postal_code", "unit"]
    features = []
    if chance(rng, k["features_p"]):
        features = [f for f in world["covariates"] if chance(rng, 0.7)]
    if pi == "bootstrap":
        features = ["baseline_normalized_margin"] + features
    elif chance(rng, 0.15):
        features = features + ["baseline_normalized_margin"]
    fixed_effects = []
    if chance(rng, k["fixed_effects_p"]):
        cands = [fe for fe in sub["fixed_effect"] if fe != "county_fips" or chance(rng, 0.3)]
        fes = [fe for fe in cands if chance(rng, 0.5)]
        if fes and chance(rng, 0.3):
            # dict form with selected levels (others pooled into 'other')
            d = {}
            for fe in fes:
                lv = sorted({str(r[fe]) for r in world["baseline"] if r.get(fe) is not None})
                if chance(rng, 0.5) or len(lv) < 2:
                    d[fe] = "all"
                else:
                    d[fe] = [x for x in lv if chance(rng, 0.5)] or [lv[0]]
            fixed_effects = d
        else:
            fixed_effects = fes
    mp = {}
    om = chance(rng, k["outlier_models_p"])
    # the two switches are independent settings: mostly equal, sometimes only one of them on
    mp["fit_margin_outlier_model"] = om if not chance(rng, 0.3) else (not om if chance(rng, k["outlier_models_p"] * 2) else om)
    mp["fit_turnout_outlier_model"] = om
    if om and chance(rng, 0.3):
        mp["fit_turnout_outlier_model" if chance(rng, 0.5) else "fit_margin_outlier_model"] = False
    lo, hi = choice(rng, k["tf_limits"])
    if (lo, hi) != (0.5, 2.0):
        mp["turnout_factor_lower"], mp["turnout_factor_upper"] = lo, hi
    if chance(rng, k["blocklist_p"]):
        units = [r["geographic_unit_fips"] for r in world["baseline"]]
        nb = int(rng.integers(1, 4))
        idx = rng.permutation(len(units))[:nb]
        mp["unit_blocklist"] = [units[int(i)] for i in idx]
        if len(world["states"]) > 1 and chance(rng, 0.3):
            mp["postal_code_blocklist"] = [choice(rng, world["states"])]
    if pi == "nonparametric":
        if chance(rng, 0.4):
            mp["robust"] = True
    elif pi == "gaussian":
        if chance(rng, k.get("winsorize_p", 0.02)):
            mp["winsorize"] = True  # scipy's winsorize costs ~0.7 s per group and level: keep it rare
        if chance(rng, 0.3):
            mp["beta"] = choice(rng, [1, 2, 0.5, 3])
    else:
        mp["B"] = int(rng.integers(k["B"][0], k["B"][1] + 1))
        if chance(rng, 0.7):
            mp["lambda_"] = choice(rng, [0, 0.001, 0.1, 1.0, 10])
        if chance(rng, 0.3):
            mp["seed"] = choice(rng, [0, 1, int(rng.integers(0, 10000))])
        if chance(rng, 0.2):
            mp["agg_model_hard_threshold"] = False
        if chance(rng, 0.3):
            mp["national_summary_correlation"] = False
        if chance(rng, 0.25):
            mp["percent_expected_vote_error_bound"] = choice(rng, [0.1, 0.3, 0.6, 0.49])
        if chance(rng, 0.1):
            mp["z_unobserved_upper_bound"], mp["z_unobserved_lower_bound"] = 2.0, 0.25
    if pi != "bootstrap" and chance(rng, k["lambda_p"]):
        mp["lambda_"] = choice(rng, [0.01, 1.0])
    if pi != "bootstrap" and chance(rng, 0.25):
        mp["seed"] = choice(rng, [0, 0, 1, int(rng.integers(0, 10000))])  # 0 is a legal seed (and falsy)
    return dict(
        pi_method=pi,
        estimands=estimands,
        prediction_intervals=alphas,
        threshold=thr,
        aggregates=aggs,
        features=features,
        fixed_effects=fixed_effects,
        model_parameters=mp,
        handle_unreporting=policy,
        save_output=[],
        lhs_called_contests=[],
        rhs_called_contests=[],
        stop_model_call=[],
        app_env="local",
    )


def profile_signature(p):
    mp = p["model_parameters"]
    return (
        p["pi_method"],
        tuple(sorted(p["estimands"])),
        len(p["prediction_intervals"]),
        p["threshold"],
        p["handle_unreporting"],
        tuple(sorted(a for a in p["aggregates"])),
        bool(p["features"]),
        bool(p["fixed_effects"]),
        bool(mp.get("unit_blocklist")) or bool(mp.get("postal_code_blocklist")),
        bool(mp.get("fit_turnout_outlier_model")),
    )
