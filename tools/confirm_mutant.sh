#!/bin/bash
# Confirms a seeded change and runs checks against it, in a scratch worktree outside /repo and /verif.
#   tools/confirm_mutant.sh <dir with patch.diff and demo.py> <property id> [more property ids to run]
# Steps: fresh worktree of /repo HEAD -> git apply patch -> pinned suite (must match baseline: 156 pass, the 2
# always-fail tests fail) -> demo passes on /repo/src and fails on the patched tree -> bin/check <ids> with
# VERIF_REPO=<worktree> -> worktree removed.
set -u
D="$(cd "$1" && pwd)"; shift
IDS="$*"
NAME="$(basename "$D")"
WT="/tmp/confirm/$NAME.$$"
mkdir -p /tmp/confirm
git -C /repo worktree add -q --detach "$WT" HEAD || exit 2
trap 'git -C /repo worktree remove --force "$WT" >/dev/null 2>&1; rm -rf "$WT"' EXIT
( cd "$WT" && git apply "$D/patch.diff" ) || { echo "RESULT $NAME patch_does_not_apply"; exit 2; }
export APP_ENV=local DATA_ENV=dev MODEL_S3_BUCKET=elex-models MODEL_S3_PATH_ROOT=elex-models
if [ "${SKIP_SUITE:-0}" != "1" ]; then
  ( cd "$WT" && PYTHONPATH="$WT/src" timeout 1500 /venv/bin/python -m pytest -q -p no:cacheprovider --timeout=900 -q 2>&1 | tail -4 ) > "$D/suite.log" 2>&1
  nf=$(grep -c "^FAILED" "$D/suite.log")
  ok=$(grep -E "test_sample_overweight|test_get_directory_path" "$D/suite.log" | wc -l)
  echo "suite: failed=$nf (baseline always-fail seen: $ok)"; SUITE="failed=$nf"
else
  SUITE="skipped"
fi
ELEX_SRC=/repo/src timeout 600 /venv/bin/python "$D/demo.py" > "$D/demo_clean.log" 2>&1; rc_clean=$?
ELEX_SRC="$WT/src" timeout 600 /venv/bin/python "$D/demo.py" > "$D/demo_mutant.log" 2>&1; rc_mut=$?
echo "demo: clean rc=$rc_clean mutant rc=$rc_mut"
for id in $IDS; do
  out=$(cd /verif && VERIF_REPO="$WT" bin/check "$id" --no-evidence ${CHECK_ARGS:-} 2>&1 | grep -E "^violation|^VIOLATION|HARNESS|quick:|thorough:" | cut -c1-400)
  rc=$(echo "$out" | grep -c "^VIOLATION")
  echo "--- check $id: violations=$rc"; echo "$out" | head -8
  # keep the replay files produced against the mutant next to it
  for f in $(echo "$out" | grep "^VIOLATION" | sed 's/.*replay=//'); do [ -f "$f" ] && cp "$f" "$D/" 2>/dev/null; done
done
echo "RESULT $NAME suite:$SUITE demo_clean:$rc_clean demo_mutant:$rc_mut"
