#!/venv/bin/python
"""Regenerates MANIFEST.json from the check families that exist (checks/cNN.py) and tools/manifest_meta.json."""
import importlib
import json
import os
import sys

VERIF = os.path.dirname(os.path.dirname(os.path.abspath(__file__)))
sys.path.insert(0, VERIF)

meta = json.load(open(os.path.join(VERIF, "tools", "manifest_meta.json")))
props = [json.loads(l) for l in open(os.path.join(VERIF, "properties.jsonl"))]
checks = []
not_applicable = []
for p in props:
    pid = p["id"]
    path = os.path.join(VERIF, "checks", pid.lower() + ".py")
    m = meta["checks"].get(pid)
    if os.path.exists(path) and m and m.get("claimed", True):
        checks.append(
            dict(
                property_id=pid,
                quick_cmd=f"bin/check {pid} --tier quick",
                thorough_cmd=f"bin/check {pid} --tier thorough",
                evidence_file=f"/verif/evidence/{pid}.json",
                replay_cmd_template=f"bin/check {pid} --replay {{path}}",
                engine="nightsim",
                level_claimed=dict(category=m["level"], text=m["text"], design_ref=m.get("design_ref", f"DESIGN.md §4 {pid}")),
                level_note=m["note"],
                technique=m.get("technique", "deterministic simulation with fault injection (seeded election-night simulator; invariants + reference models)"),
            )
        )
    else:
        not_applicable.append(dict(property_id=pid, reason=(m or {}).get("na_reason", "check not built yet in this session; see DESIGN.md §4 for the planned decision procedure")))
manifest = dict(
    version=1,
    setup_cmd=meta["setup_cmd"],
    hooks=meta["hooks"],
    engines=[
        dict(
            name="nightsim",
            path="/verif/nightsim",
            serves_properties=[c["property_id"] for c in checks],
            kind_free_text="single-process deterministic election-night simulator: seeded discrete-event scheduler over unit processes, feed transport, operator, versioned sim bucket, solver seam; drives the real ModelClient from <repo>/src; fault injection; reference-model oracles; delta-debugging shrinker; replay files",
        )
    ],
    checks=checks,
    notes=meta["notes"],
    not_applicable=not_applicable,
)
json.dump(manifest, open(os.path.join(VERIF, "MANIFEST.json"), "w"), indent=1)
print(f"claimed={len(checks)} not_claimed={len(not_applicable)}")
