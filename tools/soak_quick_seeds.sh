#!/bin/bash
# Runs every quick check under several VERIF_SEED values; prints one line per (seed, check) and anything unusual.
cd "$(dirname "$0")/.."
for seed in ${SOAK_SEEDS:-11 12 13 14 15 16 17 18}; do
  for p in ${SOAK_PROPS:-C01 C02 C03 C04 C05 C06 C07 C08 C09 C10 C11 C12 C13 C14 C15 C16 C17 C18 C19 C20}; do
    out=$(VERIF_SEED=$seed bin/check $p --tier quick --no-evidence 2>&1); rc=$?
    echo "seed=$seed $p rc=$rc $(echo "$out" | grep -E 'quick:' | tail -1 | cut -c1-120)"
    if [ $rc -ne 0 ]; then echo "$out" | grep -E "^violation|VIOLATION|HARNESS" | cut -c1-600; echo "$out" | tail -15 | cut -c1-300; fi
  done
done
