#!/bin/bash
# Runs every thorough check once (sequentially), with a chosen seed; prints one summary line per check.
cd "$(dirname "$0")/.."
export VERIF_SEED="${VERIF_SEED:-777}"
for p in ${SOAK_PROPS:-C01 C02 C03 C04 C05 C06 C07 C08 C09 C10 C11 C12 C13 C14 C15 C16 C17 C18 C19 C20}; do
  s=$(date +%s)
  bin/check $p --tier thorough --no-evidence ${SOAK_ARGS:-} 2>&1 | grep -E "^violation|VIOLATION|HARNESS|thorough:|KNOWN" | cut -c1-500
  echo "== $p took $(( $(date +%s) - s )) s"
done
