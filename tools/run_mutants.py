#!/venv/bin/python
"""Sensitivity run over the scripted mutant catalogue (tools/mutants.json).

For every entry: a scratch worktree of /repo HEAD (outside /repo and /verif) gets the one-line change, the listed
quick checks run against it with VERIF_REPO=<worktree>; optionally the pinned suite is run to see whether the
existing tests would have noticed.  Results go to tools/mutants_result.json; the worktree is removed.
usage: tools/run_mutants.py [--suite] [--only C01-a,C02-b] [--nights N]
"""
import argparse
import json
import os
import subprocess
import sys
import time

VERIF = os.path.dirname(os.path.dirname(os.path.abspath(__file__)))
ap = argparse.ArgumentParser()
ap.add_argument("--suite", action="store_true")
ap.add_argument("--only")
ap.add_argument("--nights", type=int)
a = ap.parse_args()
cat = json.load(open(os.path.join(VERIF, "tools", "mutants.json")))
if a.only:
    cat = [m for m in cat if m["id"] in a.only.split(",")]
wt = f"/tmp/mutcat.{os.getpid()}"
subprocess.check_call(["git", "-C", "/repo", "worktree", "add", "-q", "--detach", wt, "HEAD"])
env = dict(os.environ, APP_ENV="local", DATA_ENV="dev", MODEL_S3_BUCKET="elex-models", MODEL_S3_PATH_ROOT="elex-models")
res_path = os.path.join(VERIF, "tools", "mutants_result.json")
results = json.load(open(res_path)) if os.path.exists(res_path) else {}
try:
    for m in cat:
        path = os.path.join(wt, m["file"])
        src = open(path).read()
        if src.count(m["old"]) != 1:
            results[m["id"]] = dict(status="does_not_apply", what=m["what"])
            print(m["id"], "DOES NOT APPLY", src.count(m["old"]))
            continue
        open(path, "w").write(src.replace(m["old"], m["new"]))
        try:
            r = subprocess.run(["/venv/bin/python", "-c", "import sys; sys.path.insert(0, sys.argv[1]); import elexmodel.client", os.path.join(wt, "src")],
                               capture_output=True, text=True, env=env)
            if r.returncode != 0:
                results[m["id"]] = dict(status="does_not_import", what=m["what"], err=r.stderr[-300:])
                print(m["id"], "DOES NOT IMPORT")
                continue
            det = {}
            for chk in m["checks"]:
                t0 = time.time()
                cmd = [os.path.join(VERIF, "bin", "check"), chk, "--no-evidence", "--no-shrink", "--max-report", "1"]
                if a.nights:
                    cmd += ["--nights", str(a.nights)]
                p = subprocess.run(cmd, capture_output=True, text=True, env=dict(env, VERIF_REPO=wt), cwd=VERIF)
                lines = [l for l in p.stdout.splitlines() if l.startswith("violation")]
                det[chk] = dict(exit=p.returncode, first=(lines[0][:260] if lines else None), wall_s=round(time.time() - t0, 1))
            suite = None
            if a.suite:
                p = subprocess.run(["/venv/bin/python", "-m", "pytest", "-q", "-p", "no:cacheprovider", "--timeout=900", "-q"], capture_output=True, text=True,
                                   env=dict(env, PYTHONPATH=os.path.join(wt, "src")), cwd=wt)
                failed = sorted(l.split()[1].split("::")[-1] for l in p.stdout.splitlines() if l.startswith("FAILED"))
                suite = [f for f in failed if f not in ("test_sample_overweight", "test_get_directory_path")]
            caught = any(d["exit"] == 1 for d in det.values())
            results[m["id"]] = dict(status="caught" if caught else "missed", control=bool(m.get("control")), what=m["what"], checks=det,
                                    extra_suite_failures=suite)
            print(m["id"], "CAUGHT" if caught else "MISSED", {k: v["exit"] for k, v in det.items()}, "suite:", suite, flush=True)
        finally:
            open(path, "w").write(src)
        json.dump(results, open(res_path, "w"), indent=1, sort_keys=True)
finally:
    subprocess.call(["git", "-C", "/repo", "worktree", "remove", "--force", wt])
